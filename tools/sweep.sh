#!/bin/bash
# usage: tools/sweep.sh <tier> <seed> [<seed> ...]   -- runs all 20 checks per seed (no evidence rewrite), prints verdict lines
tier=$1; shift
cd "$(dirname "$0")/.."
for seed in "$@"; do
  for i in $(seq -w 1 20); do
    out=$(VERIF_SEED=$seed ./check C$i --tier $tier --no-evidence 2>&1); code=$?
    echo "$out" | grep -a -E "^(VIOLATION|  detail|INCONCLUSIVE|KNOWN|C[0-9]+ )" | cut -c1-330
    if ! echo "$out" | grep -a -qE "^C[0-9]+ (HELD|VIOLATED|INCONCLUSIVE)"; then
      echo "C$i NO-VERDICT exit=$code tier=$tier seed=$seed -- last lines:"; echo "$out" | tail -15 | cut -c1-300
    fi
  done
done
