#!/usr/bin/env python3
"""mutants/matrix.json -> mutants/MATRIX.md (which quick checks catch which seeded change)"""
import json
from pathlib import Path
HERE = Path(__file__).resolve().parent.parent
res = json.loads((HERE / "mutants" / "matrix.json").read_text())
ALL = ["C%02d" % i for i in range(1, 21)]
lines = ["# Seeded changes x quick checks", "",
         "`X` = the check exits 1 with a VIOLATION on the changed tree, `.` = silent, `?` = inconclusive (exit 2).  Produced by",
         "`mutants/run.py --matrix` (VERIF_SCALE=1, i.e. one sixth of the quick tier) on scratch copies; first column after the id = the check the change targets.", "",
         "| change | targets | " + " | ".join(p[1:] for p in ALL) + " |", "|---|---|" + "---|" * 20]
per = {p: 0 for p in ALL}
for r in res:
    row = []
    for p in ALL:
        e = r["results"].get(p, {}).get("exit")
        row.append("X" if e == 1 else "?" if e == 2 else ".")
        per[p] += e == 1
    lines.append("| %s | %s | %s |" % (r["id"], r["expected"][0], " | ".join(row)))
lines += ["", "Changes caught per check: " + ", ".join("%s=%d" % (p, n) for p, n in per.items()),
          "", "Changes caught by the targeted check: %d / %d; by at least one check: %d / %d." % (
              sum(1 for r in res if r["results"].get(r["expected"][0], {}).get("exit") == 1), len(res), sum(1 for r in res if r["caught_by"]), len(res))]
(HERE / "mutants" / "MATRIX.md").write_text("\n".join(lines) + "\n")
print(lines[-1])
