#!/venv/bin/python
"""Confirm and file an independently written breaking change (from a sub-agent's scratch worktree).

  tools/seeded.py <worktree> <id> [--checks C04,C11 | --all] [--skip-tests]

Confirms: (1) the repository's own suite passes with the change, (2) the demonstration fails with the change and
(3) passes on the unchanged /repo; then runs the quick checks against the changed tree (FLOWDYN_REPO=<worktree>, equivalent
to `git -C /repo apply patch.diff` but without disturbing /repo while other runs use it) and files everything under
/verif/seeded/<id>/ (patch.diff, demo.py, meta.json)."""
import argparse
import json
import os
import shutil
import subprocess
import sys
from pathlib import Path

VERIF = Path(__file__).resolve().parent.parent
ALL = ["C%02d" % i for i in range(1, 21)]


def sh(cmd, env=None, cwd=None, timeout=3600):
    e = dict(os.environ, MPLBACKEND="Agg")
    e.update(env or {})
    return subprocess.run(cmd, cwd=cwd, env=e, capture_output=True, text=True, timeout=timeout)


def main():
    ap = argparse.ArgumentParser()
    ap.add_argument("worktree")
    ap.add_argument("id")
    ap.add_argument("--checks")
    ap.add_argument("--all", action="store_true")
    ap.add_argument("--skip-tests", action="store_true")
    ap.add_argument("--tier", default="quick")
    a = ap.parse_args()
    wt = Path(a.worktree)
    meta = json.loads((wt / "meta.json").read_text()) if (wt / "meta.json").exists() else {}
    patch = sh(["git", "-C", str(wt), "diff", "--", "flowdyn"]).stdout
    if not patch.strip():
        print("no change in", wt)
        return 2
    out = {"id": a.id, "property": meta.get("property"), "summary": meta.get("summary"), "needs": meta.get("needs"), "source": "independent sub-agent (property text + scratch worktree only)"}
    # (1) repository suite with the change
    if not a.skip_tests:
        r = sh(["/venv/bin/python", "-m", "pytest", "-q", "-p", "no:cacheprovider", "-p", "no:cov", "-o", "addopts=", "--timeout=900", "tests"], env={"PYTHONPATH": str(wt)}, cwd=str(wt))
        out["suite_with_change"] = (r.stdout.strip().splitlines() or ["?"])[-1]
        out["suite_passes_with_change"] = r.returncode == 0
    # (2)/(3) demonstration
    r1 = sh(["/venv/bin/python", str(wt / "demo.py")], env={"PYTHONPATH": str(wt)}, cwd=str(wt))
    # unchanged code: take the change out of the scratch worktree by reverse-applying its own diff (NOT `git stash`: the stash list is
    # shared by all worktrees of one repository, and concurrent stash/pop of several agents hand each other's changes around)
    pfile = wt / ".seeded-change.diff"
    pfile.write_text(patch)
    rr = sh(["git", "-C", str(wt), "apply", "-R", str(pfile)])
    if rr.returncode != 0:
        print("cannot reverse-apply the change:", rr.stderr)
        return 2
    try:
        r0 = sh(["/venv/bin/python", str(wt / "demo.py")], env={"PYTHONPATH": str(wt)}, cwd=str(wt))
    finally:
        sh(["git", "-C", str(wt), "apply", str(pfile)])
        pfile.unlink()
    out["demo_fails_with_change"] = r1.returncode != 0
    out["demo_passes_on_unchanged_repo"] = r0.returncode == 0
    out["demo_output_with_change"] = (r1.stdout + r1.stderr).strip()[-600:]
    # (4) my checks against the changed tree
    checks = ALL if a.all else (a.checks.split(",") if a.checks else [meta.get("property")])
    res = {}
    for pid in checks:
        r = sh([str(VERIF / "check"), pid, "--no-evidence", "--tier", a.tier], env={"FLOWDYN_REPO": str(wt)}, cwd=str(VERIF))
        keys = [ln.split("key=")[1].split()[0] for ln in r.stdout.splitlines() if ln.startswith("  detail: key=")]
        res[pid] = {"exit": r.returncode, "keys": keys[:5]}
        print("  %s exit=%d %s" % (pid, r.returncode, keys[:2]), flush=True)
    out["checks_run"] = {"how": "FLOWDYN_REPO=<worktree with the change> ./check <id> --tier %s (VERIF_SEED=%s)" % (a.tier, os.environ.get("VERIF_SEED", "0")), "results": res}
    out["caught_by"] = [p for p, v in res.items() if v["exit"] == 1]
    d = VERIF / "seeded" / a.id
    d.mkdir(parents=True, exist_ok=True)
    (d / "patch.diff").write_text(patch)
    if (wt / "demo.py").exists():
        shutil.copy(wt / "demo.py", d / "demo.py")
    (d / "meta.json").write_text(json.dumps(out, indent=1))
    print(json.dumps({k: out[k] for k in out if k not in ("demo_output_with_change", "checks_run")}, indent=1))
    return 0


if __name__ == "__main__":
    sys.exit(main())
