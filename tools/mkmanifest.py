#!/usr/bin/env python3
"""Regenerates /verif/MANIFEST.json from the property modules that exist (fdmon/props/cXX.py)."""
import json
import sys
from pathlib import Path

HERE = Path(__file__).resolve().parent.parent
sys.path.insert(0, str(HERE))
from fdmon.manifest_text import TEXT  # noqa

props = [json.loads(l) for l in (HERE / "properties.jsonl").read_text().splitlines() if l.strip()]
checks, na = [], []
for p in props:
    pid = p["id"]
    if not (HERE / "fdmon" / "props" / (pid.lower() + ".py")).exists() or pid not in TEXT:
        na.append({"property_id": pid, "reason": "check not built yet (runtime monitor planned, see DESIGN.md section 3/%s)" % pid})
        continue
    t = TEXT[pid]
    checks.append({
        "property_id": pid,
        "quick_cmd": "./check %s --tier quick" % pid,
        "thorough_cmd": "./check %s --tier thorough" % pid,
        "evidence_file": "evidence/%s.json" % pid,
        "replay_cmd_template": "./check %s --replay {path}" % pid,
        "engine": "fdmon",
        "level_claimed": {"category": "exploration", "text": t["level"], "design_ref": "DESIGN.md section 3/%s" % pid},
        "level_note": t["note"],
        "technique": t["technique"],
    })
man = {
    "version": 1,
    "setup_cmd": "/venv/bin/python -c \"import numpy, scipy, flowdyn; print('fdmon: nothing to build (pure Python), flowdyn from', flowdyn.__file__)\"",
    "hooks": {
        "guard": "FLOWDYN_VERIF",
        "enable": "no source hook in /repo: ./check sets FLOWDYN_VERIF=1 and fdmon.probes wraps the real flowdyn callables from the harness process; without the variable probes.hook() is a no-op",
        "baseline_off_cmd": "cd /repo && env -u FLOWDYN_VERIF /venv/bin/python -m pytest -ra -q -p no:cacheprovider --timeout=900 --continue-on-collection-errors",
        "source_commits": [],
        "add_only": True,
    },
    "engines": [{"name": "fdmon", "path": "fdmon/", "serves_properties": [c["property_id"] for c in checks],
                 "kind_free_text": "runtime monitoring: probes wrapped around the real flowdyn functions + seeded hostile workloads + online/offline oracles; sharded over 16 cores"}],
    "checks": checks,
    "notes": "All checks import flowdyn from /repo's working tree (FLOWDYN_REPO overrides for mutant self-tests). Exit 0 held / 1 violation / 2 inconclusive. known_findings.json lists repaired defects (fixed:) and would list unrepaired ones (known:).",
    "not_applicable": na,
}
(HERE / "MANIFEST.json").write_text(json.dumps(man, indent=1) + "\n")
print("checks:", len(checks), "not_applicable:", len(na))
