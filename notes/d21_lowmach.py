import sys; sys.path.insert(0,'/repo')
import numpy as np, warnings; warnings.simplefilter("ignore")
import flowdyn.mesh as mesh, flowdyn.modelphy.euler as euler, flowdyn.modeldisc as md, flowdyn.xnum as xnum, flowdyn.integration as integ
g=1.4
for M in (0.5, 0.1, 0.02, 1e-3):
  for iname,cfl in (("rk3ssp",0.8),("forwardeuler",0.5),("lsrk25bb",0.8),("implicit",5.0)):
    for out in ("outsub","outsub_nrcbc"):
        m=mesh.unimesh(ncell=20,length=1.)
        model=euler.model(gamma=g)
        rho,p=1.0,1.0; c=np.sqrt(g*p/rho); u=M*c
        pt=p*(1+.5*(g-1)*M*M)**(g/(g-1)); rtt=p/rho*(1+.5*(g-1)*M*M)
        disc=md.fvm(model,m,xnum.extrapol1(),numflux="hllc",bcL={"type":"insub","ptot":pt,"rttot":rtt},bcR={"type":out,"p":p})
        f=disc.fdata_fromprim([rho,u,p])
        s=getattr(integ,iname)(m,disc)
        line=[]
        for n in (1,10,100,1000):
            with np.errstate(all="ignore"):
                r=s.solve(f,cfl,stop={"maxit":n})[-1]
            du=np.max(np.abs(r.phydata("velocity")-u))/c
            dp=np.max(np.abs(r.phydata("pressure")-p))/p
            line.append("%d: du/c=%.1e dp/p=%.1e"%(n,du,dp))
        print("M=%g %s cfl=%g %s | "%(M,iname,cfl,out)+" ; ".join(line))
