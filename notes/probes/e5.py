# C01 2D operator + solve-level conservation
from lib import *
warnings.simplefilter('ignore')
rng = np.random.default_rng(2)
worst={}
e2 = euler.euler2d()
for it in range(200):
    nx, ny = int(rng.integers(1,7)), int(rng.integers(1,7))
    m2 = mesh2d.mesh2d(nx, ny, float(rng.uniform(.5,3)), float(rng.uniform(.5,3)))
    n = nx*ny
    for flux in ['centered','hlle']:
        for rn, r in [('o1', xnum.extrapol2d1()), ('k1/3', xnum.extrapol2dk(1./3.)), ('k-1', xnum.extrapol2dk(-1.)), ('k1', xnum.extrapol2dk(1.))]:
            for bcs in ['per','sym','persym','symper']:
                bl = {'left':{'type': 'per' if bcs in('per','persym') else 'sym'}, 'bottom': {'type': 'per' if bcs in ('per','symper') else 'sym'}}
                bl['right']=bl['left']; bl['top']=bl['bottom']
                try:
                    d = md.fvm2d(e2, m2, r, bl, numflux=flux)
                    f = d.fdata_fromprim([rng.uniform(.5,2,n), rng.uniform(-1,1,(2,n)), rng.uniform(.5,2,n)])
                    res = d.rhs(f)
                except Exception as ex:
                    worst[('EXC', nx if nx<3 else 3, ny if ny<3 else 3, rn, bcs, type(ex).__name__)] = 1; continue
                vol = m2.vol()
                for i in (0,2):
                    tot=np.sum(vol*res[i]); scale=np.sum(np.abs(d.flux[i]))*max(m2.dx(),m2.dy())+1e-300
                    key=(flux,rn,bcs,i); worst[key]=max(worst.get(key,0),abs(tot)/scale)
                if bcs=='per':
                    tot=np.sum(vol*res[1],axis=1); scale=np.sum(np.abs(d.flux[1]))*max(m2.dx(),m2.dy())
                    key=(flux,rn,bcs,1); worst[key]=max(worst.get(key,0),np.abs(tot).max()/scale)
for k,v in sorted(worst.items(), key=lambda kv:-kv[1])[:30]: print(k,v)
