# C13 unit scaling bitwise
from lib import *
warnings.simplefilter('ignore')
rng=np.random.default_rng(16)
res={}
def scaled_mesh(m, l):
    xf=m.xf*l
    mm=mesh.morphedmesh(ncell=m.ncell,length=m.length*l,morph=lambda x: xf.copy()); return mm
ALL=tn.List_Explicit_Integrators+[tn.lsrk4]
for it in range(40):
    m=rand_mesh(rng,nc=int(rng.integers(4,12))); nc=m.ncell
    a,b,l=[4.0**int(rng.integers(-10,11)) for _ in range(3)]
    ms=scaled_mesh(m,l)
    for fam in ['conv','burgers','sw','euler']:
        for rn in ['extrapol1','extrapol3','muscl(minmod)','muscl(superbee)','muscl(vanleer)','muscl(vanalbada)']:
            for cls in ALL:
                if fam=='conv':
                    mod,mods=conv.model(1.3),conv.model(1.3*b); q=[rng.uniform(-1,1,nc)]; qs=[q[0]*a]; fl=[None]
                elif fam=='burgers':
                    mod,mods=burgers.model(),burgers.model(); q=[rng.uniform(.2,1,nc)]; qs=[q[0]*b]; fl=[None]
                elif fam=='sw':
                    mod,mods=shw.shallowwater1d(g=9.81),shw.shallowwater1d(g=9.81*b*b/a); h,u=rng.uniform(1,1.5,nc),rng.uniform(-.5,.5,nc); q=mod.prim2cons([h,u]); qs=mods.prim2cons([h*a,u*b]); fl=['centered','hll']
                else:
                    mod,mods=euler.euler1d(),euler.euler1d(); rho,u,p=rng.uniform(1,1.5,nc),rng.uniform(-.5,.5,nc),rng.uniform(1,1.5,nc); q=mod.prim2cons([rho,u,p]); qs=mods.prim2cons([rho*a,u*b,p*a*b*b]); fl=['hlle','hllc','centered']
                for flux in fl:
                    kw=dict(numflux=flux) if flux else {}
                    d=md.fvm(mod,m,recons()[rn],**kw); ds=md.fvm(mods,ms,recons()[rn],**kw)
                    r=cls(m,d).solve(field.fdata(mod,m,q),.4,stop={'maxit':4})[-1]
                    rs=cls(ms,ds).solve(field.fdata(mods,ms,qs),.4,stop={'maxit':4})[-1]
                    pr=mod.cons2prim(r.data); prs=mods.cons2prim(rs.data)
                    sc=[a] if fam=='conv' else [b] if fam=='burgers' else [a,b] if fam=='sw' else [a,b,a*b*b]
                    bit=all(np.array_equal(x*s,y) for x,y,s in zip(pr,prs,sc)) and (r.time*l/b==rs.time)
                    rel=max(np.abs(x*s-y).max()/np.abs(y).max() for x,y,s in zip(pr,prs,sc))
                    key=(fam,flux,rn if 'van' in rn else 'other', 'impl' if cls in tn.List_Implicit_Integrators else 'expl')
                    o=res.setdefault(key,[0,0,0.]); o[0]+=1; o[1]+=bit; o[2]=max(o[2],rel if np.isfinite(rel) else 9e9)
for k in sorted(res, key=str): print(k,res[k])
