from lib import *
warnings.simplefilter('ignore')
np.set_printoptions(linewidth=220, precision=4)
rng=np.random.default_rng(3)
for meshk in ['uni','refined','morphed','arb']:
  for rn in ['extrapol3','muscl(minmod)','muscl(vanalbada)']:
    m=rand_mesh(rng,kind=meshk,nc=6); nc=6
    e1=euler.euler1d(); de=md.fvm(e1,m,recons()[rn],numflux='hllc')
    xc=(m.xc-m.xf[0])/m.length
    fe=de.fdata_fromprim([1+.3*np.sin(2*np.pi*xc),.4+.2*np.cos(2*np.pi*xc),1+.2*np.sin(4*np.pi*xc)])
    s=tn.implicit(m,de); J=s.calc_jacobian(fe,epsdiff=1.0).copy()
    Jr=np.zeros_like(J)
    for i in range(nc):
        for k in range(3):
            h=1e-6*np.abs(fe.data[k]).mean()
            fp=fe.copy(); fp.data[k][i]+=h; fm=fe.copy(); fm.data[k][i]-=h
            rp=[x.copy() for x in de.rhs(fp)]; rm=[x.copy() for x in de.rhs(fm)]
            for kk in range(3): Jr[kk::3,i*3+k]=(rp[kk]-rm[kk])/(2*h)
    D=np.abs(J-Jr); ij=np.unravel_index(D.argmax(),D.shape)
    print(meshk, rn, D.max()/np.abs(Jr).max(), ij, J[ij], Jr[ij])
