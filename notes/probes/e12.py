from lib import *
warnings.simplefilter('ignore')
rng = np.random.default_rng(9)
worst={}
def upd(k,v): worst[k]=max(worst.get(k,0), v if np.isfinite(v) else 9e9)
m=mesh.unimesh(ncell=7,length=1.); m2=mesh2d.mesh2d(3,2)
for it in range(2000):
    g=float(rng.uniform(1.01,2.0)); gm=g-1
    for dim in (1,2):
        n=7 if dim==1 else 6
        e=(euler.euler1d if dim==1 else euler.euler2d)(gamma=g) if rng.random()<.7 or dim==2 else euler.nozzle(lambda x:1+x, gamma=g)
        if isinstance(e, euler.nozzle): e.initdisc(m)
        rho=10**rng.uniform(-6,6,n); p=10**rng.uniform(-6,6,n); a=np.sqrt(g*p/rho)
        M=10**rng.uniform(-3,1,n)
        if dim==1: u=M*a*rng.choice([-1,1],n); V2=u*u
        else:
            th=rng.uniform(0,2*np.pi,n); u=np.vstack([M*a*np.cos(th),M*a*np.sin(th)]); V2=(u**2).sum(0)
        q=e.prim2cons([rho,u,p]); pr=e.cons2prim(q)
        upd(('rt',dim), max(np.abs(pr[0]/rho-1).max(), np.abs(pr[2]/p-1).max()/(1+M.max()**2)/ (1), np.abs(pr[1]-u).max()/np.abs(a*M).max()))
        f=field.fdata(e, m if dim==1 else m2, q)
        V=lambda nm: f.phydata(nm)
        for nm in e.list_var():
            v=V(nm)
            if nm not in ('velocity',) and np.shape(v)!=(n,): upd(('shape',nm,dim),1)
        cond=1+M**2*g*gm  # conditioning of pressure from energy
        upd(('asound',dim), np.abs(V('asound')**2/(g*V('pressure')/V('density'))-1).max())
        upd(('mach',dim), np.abs(np.abs(V('mach'))/(np.sqrt(V2)/V('asound'))-1).max())
        upd(('pressure',dim), (np.abs(V('pressure')/p-1)/cond).max())
        if dim==1 or True:
            try: upd(('enthalpy',dim), (np.abs(V('enthalpy')/(g/gm*V('pressure')/V('density'))-1)).max())
            except Exception as ex: upd(('enthalpy-exc',dim),1)
        upd(('htot',dim), np.abs(V('htot')/(g/gm*V('pressure')/V('density')+.5*V2)-1).max())
        upd(('rttot',dim), np.abs(V('rttot')/(gm/g*V('htot'))-1).max())
        upd(('ptot',dim), np.abs(V('ptot')/(V('pressure')*(1+.5*gm*V('mach')**2)**(g/gm))-1).max())
        upd(('entropy',dim), np.abs(V('entropy')-np.log(V('pressure')/V('density')**g)/gm).max()/np.abs(V('entropy')).max())
        if dim==1:
            sec = e.sectionlaw(m.centers()) if isinstance(e,euler.nozzle) else 1.
            upd(('massflow',type(e).__name__), np.abs(V('massflow')/(rho*u*sec)-1).max())
for k,v in sorted(worst.items(), key=lambda kv:-kv[1]): print(k,v)
