import numpy as np
def exact_riemann(WL, WR, g, xi):
    """Toro exact solver. WL,WR=(rho,u,p); xi = x/t array. returns rho,u,p arrays"""
    rl,ul,pl=WL; rr,ur,pr=WR
    cl=np.sqrt(g*pl/rl); cr=np.sqrt(g*pr/rr)
    g1=(g-1)/(2*g); g2=(g+1)/(2*g); g3=2*g/(g-1); g4=2/(g-1); g5=2/(g+1); g6=(g-1)/(g+1); g7=(g-1)/2
    assert g4*(cl+cr) > ur-ul, "vacuum"
    def fK(p, rk, pk, ck):
        if p>pk:
            A=g5/rk; B=g6*pk; q=np.sqrt(A/(p+B)); return (p-pk)*q, (1-0.5*(p-pk)/(B+p))*q
        pr_=p/pk; return g4*ck*(pr_**g1-1), (1/(rk*ck))*pr_**(-g2)
    p=max(1e-12, 0.5*(pl+pr))
    # two-rarefaction guess
    p=((cl+cr-g7*(ur-ul))/(cl/pl**g1+cr/pr**g1))**g3
    for it in range(200):
        fl,dl=fK(p,rl,pl,cl); fr,dr=fK(p,rr,pr,cr)
        pn=p-(fl+fr+ur-ul)/(dl+dr)
        if pn<=0: pn=1e-14*p+1e-300 if p*0.1<=0 else 0.1*p
        if abs(pn-p)/(0.5*(pn+p))<1e-14: p=pn; break
        p=pn
    fl,_=fK(p,rl,pl,cl); fr,_=fK(p,rr,pr,cr)
    us=0.5*(ul+ur+fr-fl); ps=p
    xi=np.asarray(xi,dtype=float); rho=np.empty_like(xi); u=np.empty_like(xi); pp=np.empty_like(xi)
    for i,s in enumerate(xi):
        if s<=us:
            if ps<=pl: # left rarefaction
                shl=ul-cl
                if s<=shl: W=(rl,ul,pl)
                else:
                    cml=cl*(ps/pl)**g1; stl=us-cml
                    if s>stl: W=(rl*(ps/pl)**(1/g),us,ps)
                    else:
                        uu=g5*(cl+g7*ul+s); c=g5*(cl+g7*(ul-s)); W=(rl*(c/cl)**g4,uu,pl*(c/cl)**g3)
            else:
                pml=ps/pl; sl=ul-cl*np.sqrt(g2*pml+g1)
                W=(rl,ul,pl) if s<=sl else (rl*(pml+g6)/(pml*g6+1),us,ps)
        else:
            if ps>pr:
                pmr=ps/pr; sr=ur+cr*np.sqrt(g2*pmr+g1)
                W=(rr,ur,pr) if s>=sr else (rr*(pmr+g6)/(pmr*g6+1),us,ps)
            else:
                shr=ur+cr
                if s>=shr: W=(rr,ur,pr)
                else:
                    cmr=cr*(ps/pr)**g1; str_=us+cmr
                    if s<=str_: W=(rr*(ps/pr)**(1/g),us,ps)
                    else:
                        uu=g5*(-cr+g7*ur+s); c=g5*(cr-g7*(ur-s)); W=(rr*(c/cr)**g4,uu,pr*(c/cr)**g3)
        rho[i],u[i],pp[i]=W
    return rho,u,pp,(ps,us)
if __name__=='__main__':
    # Toro test 1
    r,u,p,(ps,us)=exact_riemann((1,0,1),(.125,0,.1),1.4,[0.])
    print(ps,us)  # 0.30313, 0.92745
    r,u,p,(ps,us)=exact_riemann((1,-2,.4),(1,2,.4),1.4,[0.]); print(ps,us) # 0.00189, 0
    r,u,p,(ps,us)=exact_riemann((1,0,1000),(1,0,.01),1.4,[0.]); print(ps,us) # 460.894 19.5975
