import numpy as np, warnings
import flowdyn.mesh as mesh, flowdyn.mesh2d as mesh2d, flowdyn.modeldisc as md
import flowdyn.modelphy.convection as conv, flowdyn.modelphy.burgers as burgers
import flowdyn.modelphy.euler as euler, flowdyn.modelphy.shallowwater as shw
import flowdyn.field as field, flowdyn.xnum as xnum, flowdyn.integration as tn

LIMS = [xnum.minmod, xnum.vanalbada, xnum.vanleer, xnum.superbee]
def recons():
    r = {'extrapol1': xnum.extrapol1(), 'extrapol2': xnum.extrapol2(), 'extrapol3': xnum.extrapol3(),
         'centered': xnum.centered(), 'fromm': xnum.fromm(), 'quick': xnum.quick(), 'extrapolk(-0.3)': xnum.extrapolk(-0.3)}
    for l in LIMS: r['muscl(%s)'%l.__name__] = xnum.muscl(l)
    return r

def rand_mesh(rng, kind=None, nc=None):
    nc = nc or int(rng.integers(3, 24))
    kind = kind or rng.choice(['uni','refined','morphed','arb'])
    L = float(rng.uniform(0.5, 5))
    if kind=='uni':
        return mesh.unimesh(ncell=nc, length=L, x0=float(rng.uniform(-2,2)))
    if kind=='refined':
        return mesh.refinedmesh(ncell=nc, length=L, ratio=float(rng.uniform(0.3,3)), nratioa=int(rng.integers(1,4)), nratiob=int(rng.integers(1,4)))
    if kind=='morphed':
        a = float(rng.uniform(0,0.9))
        return mesh.morphedmesh(ncell=nc, length=L, morph=lambda x: x + a*L/(2*np.pi)*np.sin(2*np.pi*x/L))
    # arbitrary monotone faces: morph by piecewise-random map via interpolation
    w = rng.uniform(0.2, 1.0, nc); xf = np.concatenate([[0.], np.cumsum(w)]); xf *= L/xf[-1]
    base = np.linspace(0., L, nc+1)
    return mesh.morphedmesh(ncell=nc, length=L, morph=lambda x: np.interp(x, base, xf))
