import numpy as np, warnings
warnings.simplefilter('ignore')
import flowdyn.mesh as mesh, flowdyn.mesh2d as mesh2d, flowdyn.modelphy.convection as conv, flowdyn.modeldisc as md
import flowdyn.modelphy.euler as euler, flowdyn.modelphy.shallowwater as shw
import flowdyn.field as field, flowdyn.xnum as xnum, flowdyn.integration as tn
m = mesh.unimesh(ncell=10, length=1.)
mod = conv.model(1.)
rhs = md.fvm(mod, m, xnum.extrapol1())
f0 = field.fdata(mod, m, [np.sin(2*np.pi*m.centers())])
for cls in [tn.implicit, tn.cranknicolson, tn.gear]:
    s = cls(m, rhs)
    r = s.solve(f0, 0.5, [0.0, 0.1])
    print(cls.__name__, [x.time for x in r], [bool(x.isnan()) for x in r])
# nozzle with extra sources
try:
    nm = euler.nozzle(sectionlaw=lambda x: 1+0.1*x, source=[None, lambda x,q: -0.2+0*x, None])
    r = md.fvm(nm, m, xnum.extrapol1(), bcL={'type':'sym'}, bcR={'type':'sym'})
    f = r.fdata_fromprim([1., 0.3, 1.])
    print('nozzle src', r.rhs(f))
except BaseException as e:
    print('nozzle extra source ->', type(e).__name__, str(e)[:80])
# rusanov consistency
sw = shw.shallowwater1d()
h=np.array([2.0]); u=np.array([3.0])
for fl in ['centered','rusanov','hll']:
    print(fl, sw.numflux(fl, [h,u],[h,u]), 'exact', [h*u, h*u*u+0.5*sw.g*h*h])
# enthalpy 2D
m2 = mesh2d.mesh2d(3,2)
e2 = euler.euler2d()
f2 = field.fdata(e2, m2, e2.prim2cons([np.ones(6), np.vstack([np.full(6,.3), np.full(6,.4)]), np.ones(6)]))
for name in e2.list_var():
    try:
        v = f2.phydata(name); print(name, np.shape(v))
    except Exception as e:
        print(name, 'ERR', e)
# vanalbada overflow
for lim in [xnum.minmod, xnum.vanalbada, xnum.vanleer, xnum.superbee]:
    print(lim.__name__, [float(lim(a,b)) for a,b in [(1e150,1e150),(1e103,1e103),(1e-150,1e-150),(1e150,-1e150),(1e-30,1e-30),(1e-8,1e-8),(1e-8,2e-8)]])
