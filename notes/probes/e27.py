from lib import *
from riem import exact_riemann
import flowdyn.solution.euler_riemann as solR
warnings.simplefilter('ignore')
rng=np.random.default_rng(21)
# compare packaged reference to independent solver
mod=euler.euler1d()
worst=0
for it in range(30):
    WL=(10**rng.uniform(-.5,.5), rng.uniform(-.6,.6), 10**rng.uniform(-.5,.5)); WR=(10**rng.uniform(-.5,.5), rng.uniform(-.6,.6), 10**rng.uniform(-.5,.5))
    m=mesh.unimesh(ncell=200,length=10.,x0=-5.)
    rp=solR.riemann(mod,list(WL),list(WR)); t=1.3
    pr=rp.primdata(m,t)
    r,u,p,_=exact_riemann(WL,WR,1.4,m.centers()/t)
    err=max(np.abs(pr[0]-r).max(),np.abs(pr[1]-u).max(),np.abs(pr[2]-p).max())
    worst=max(worst,err)
print('packaged vs independent worst abs diff', worst)
