# C16 / C17 / C18 quick probes
from lib import *
warnings.simplefilter('ignore')
rng = np.random.default_rng(8)
worst={}
def upd(k,v): worst[k]=max(worst.get(k,0), v if np.isfinite(v) else 9e9)
for it in range(3000):
    g=float(rng.uniform(1.05,2.0)); gm=g-1
    e=euler.euler1d(gamma=g)
    def tot(S):
        rho,u,p=S; M2=u*u/(g*p/rho); f=1+.5*gm*M2
        return p*f**(g/gm), p/rho*f
    rho1,p1=10**rng.uniform(-3,3),10**rng.uniform(-3,3); a1=np.sqrt(g*p1/rho1)
    for d in (-1,1):
        A=lambda x: np.array([x])
        # insub: choose BC state S1 inflow subsonic
        M=rng.uniform(.02,.98); S1=(rho1,-d*M*a1,p1); pt,rt=tot(S1)
        r=e.namedBC('insub',d,[A(10**rng.uniform(-3,3)),A(rng.normal()*a1),A(p1)],{'ptot':pt,'rttot':rt})
        upd('insub',max(abs(r[0][0]/rho1-1),abs(r[1][0]-S1[1])/a1,abs(r[2][0]/p1-1))*M*M)
        # insup
        M=rng.uniform(1.02,5); S1=(rho1,-d*M*a1,p1); pt,rt=tot(S1)
        r=e.namedBC('insup',d,[A(1.),A(0.),A(1.)],{'ptot':pt,'rttot':rt,'p':p1})
        upd('insup',max(abs(r[0]/rho1-1),abs(r[1]-S1[1])/a1,abs(r[2]/p1-1)))
        # insub_cbc: S1 subsonic inflow; interior S0 with same J = u + d*2a/gm, arbitrary entropy
        M=rng.uniform(.02,.98); S1=(rho1,-d*M*a1,p1); pt,rt=tot(S1); J=S1[1]+d*2*a1/gm
        a0=a1*rng.uniform(.5,1.5); u0=J-d*2*a0/gm; rho0=10**rng.uniform(-3,3); p0=a0*a0*rho0/g
        r=e.namedBC('insub_cbc',d,[A(rho0),A(u0),A(p0)],{'ptot':pt,'rttot':rt})
        upd('insub_cbc',max(abs(r[0][0]/rho1-1),abs(r[1][0]-S1[1])/a1,abs(r[2][0]/p1-1)))
        # outsub_qtot: interior outflow subsonic S0; imposed p < ptot0
        M=rng.uniform(.02,.98); S0=(rho1,d*M*a1,p1); pt,rt=tot(S0); pimp=pt*rng.uniform(.3,.999)
        r=e.namedBC('outsub_qtot',d,[A(S0[0]),A(S0[1]),A(S0[2])],{'p':pimp})
        S=(r[0][0],r[1][0],float(r[2])); pt2,rt2=tot(S)
        upd('outsub_qtot',max(abs(pt2/pt-1),abs(rt2/rt-1),abs(S[2]/pimp-1), 0 if d*S[1]>=0 else 1))
        # outsub_nrcbc
        pimp=p1*rng.uniform(.5,2)
        r=e.namedBC('outsub_nrcbc',d,[A(S0[0]),A(S0[1]),A(S0[2])],{'p':pimp})
        S=(r[0][0],r[1][0],float(r[2])); aS=np.sqrt(g*S[2]/S[0])
        upd('nrcbc',max(abs((S[2]/S[0]**g)/(p1/rho1**g)-1),abs((S[1]-d*2*aS/gm)-(S0[1]-d*2*a1/gm))/a1,abs(S[2]/pimp-1)))
        # outsub_rh: Rankine-Hugoniot between interior and BC state with shock speed W
        pimp=p1*rng.uniform(1.0,3)
        r=e.namedBC('outsub_rh',d,[A(S0[0]),A(S0[1]),A(S0[2])],{'p':pimp})
        S=(r[0][0],r[1][0],float(r[2]))
        # find W from mass: rho0(u0-W)=rho1(u1-W)
        W=(S[0]*S[1]-S0[0]*S0[1])/(S[0]-S0[0]) if S[0]!=S0[0] else 0
        def EE(S): return S[2]/gm+.5*S[0]*S[1]**2
        m0,m1=S0[0]*(S0[1]-W),S[0]*(S[1]-W)
        mom=(m0*S0[1]+S0[2])-(m1*S[1]+S[2]); en=(EE(S0)*(S0[1]-W)+S0[2]*S0[1])-(EE(S)*(S[1]-W)+S[2]*S[1])
        upd('rh',max(abs(mom)/(pimp),abs(en)/(pimp*a1), abs(S[2]/pimp-1))*(pimp/p1-1 if pimp/p1>1.001 else 0))
print(worst)
