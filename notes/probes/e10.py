# C03 uniform fixed points
from lib import *
warnings.simplefilter('ignore')
rng = np.random.default_rng(7)
worst={}
def upd(k,v): worst[k]=max(worst.get(k,0), v if np.isfinite(v) else 9e9)
e1=euler.euler1d(); g=1.4
def tot(rho,u,p):
    M2=u*u/(g*p/rho); f=1+.2*M2
    return p*f**3.5, p/rho*f
for it in range(300):
    m=rand_mesh(rng); nc=m.ncell
    M = rng.choice([rng.uniform(0.05,.9), rng.uniform(1.1,3)])
    rho,p=rng.uniform(.2,5),rng.uniform(.2,5); c=np.sqrt(g*p/rho)
    for sgn in (1,-1):
        u=sgn*M*c
        ptot,rttot=tot(rho,u,p)
        prm=dict(ptot=ptot,rttot=rttot,p=p)
        if M<1:
            ins=['insub','insub_cbc','dirichlet']; outs=['outsub','outsub_prim','outsub_qtot','outsub_nrcbc','outsub_rh','dirichlet']
        else:
            ins=['insup','dirichlet']; outs=['outsup','dirichlet']
        for bi in ins:
            for bo in outs:
                bI={'type':bi,'prim':[rho,u,p],**prm}; bO={'type':bo,'prim':[rho,u,p],**prm}
                bL,bR=(bI,bO) if sgn>0 else (bO,bI)
                for flux in ['centered','centeredmassflow','hlle','hllc']:
                    for rn,r in recons().items():
                        d=md.fvm(e1,m,r,numflux=flux,bcL=bL,bcR=bR)
                        f=d.fdata_fromprim([rho,u,p])
                        res=d.rhs(f)
                        for i in range(3):
                            sc=np.abs(d.flux[i]).max()/m.vol().min()+1e-300
                            upd((bi,bo,flux,i,'M<1' if M<1 else 'M>1'), np.abs(res[i]).max()/sc)
for k,v in sorted(worst.items(), key=lambda kv:-kv[1])[:25]: print(k,v)
print(len(worst))
