# C10 positivity
from lib import *
warnings.simplefilter('ignore')
rng=np.random.default_rng(14)
viol={}
cnt={}
INTS=[tn.explicit, tn.rk2_heun, tn.rk3ssp]
def pw(rng,nc,lo,hi):
    k=int(rng.integers(1,5)); cuts=np.sort(rng.integers(0,nc,k)); vals=10**rng.uniform(lo,hi,k+1); q=np.empty(nc); idx=np.searchsorted(cuts,np.arange(nc),side='right'); return vals[idx]
for it in range(600):
    nc=int(rng.integers(3,40)); m=mesh.unimesh(ncell=nc,length=float(rng.uniform(.5,3)))
    bc=str(rng.choice(['per','sym'])); b={'type':bc}
    for fam,flux in [('euler','hlle'),('euler','hllc'),('sw','rusanov'),('sw','hll')]:
        if fam=='euler':
            mod=euler.euler1d(gamma=float(rng.choice([1.4,1.2,1.67])))
            if rng.random()<.5: rho,p=pw(rng,nc,-1.5,1.5),pw(rng,nc,-1.5,1.5)
            else: rho,p=10**rng.uniform(-1.5,1.5,nc),10**rng.uniform(-1.5,1.5,nc)
            c=np.sqrt(mod.gamma*p/rho); u=rng.uniform(-3,3,nc)*c if rng.random()<.5 else pw(rng,nc,-1,.47)*rng.choice([-1,1])*c
            q=mod.prim2cons([rho,u,p])
        else:
            mod=shw.shallowwater1d(g=float(rng.choice([9.81,1.])))
            h=pw(rng,nc,-1.5,1.5) if rng.random()<.5 else 10**rng.uniform(-1.5,1.5,nc)
            u=rng.uniform(-3,3,nc)*np.sqrt(mod.g*h); q=mod.prim2cons([h,u])
        d=md.fvm(mod,m,xnum.extrapol1(),numflux=flux,bcL=b,bcR=b)
        for cls in INTS:
            cfl=float(rng.uniform(.05,.5)) if rng.random()<.6 else .5
            s=cls(m,d); f=field.fdata(mod,m,q)
            key=(fam,flux,bc,cls.__name__); cnt[key]=cnt.get(key,0)+1
            for stepi in range(25):
                dt=np.min(d.calc_timestep(f,cfl)); s.step(f,dt)
                if fam=='euler': ok = np.all(np.isfinite(f.data[0])) and f.data[0].min()>0 and f.phydata('pressure').min()>0
                else: ok = np.all(np.isfinite(f.data[0])) and f.data[0].min()>0
                if not ok:
                    viol.setdefault(key,[]).append((it,stepi,cfl)); break
for k in sorted(cnt): print(k, cnt[k], 'viol', len(viol.get(k,[])), viol.get(k,[])[:3])
