# C08 purity probes
from lib import *
warnings.simplefilter('ignore')
rng=np.random.default_rng(12)
m=mesh.unimesh(ncell=12,length=1.)
def setup(kind):
    if kind=='conv':
        mod=conv.model(1.); d=md.fvm(mod,m,xnum.extrapol3()); f=field.fdata(mod,m,[np.sin(2*np.pi*m.centers())+.3*np.cos(4*np.pi*m.centers())])
    elif kind=='burgers':
        mod=burgers.model(); d=md.fvm(mod,m,xnum.muscl(xnum.minmod)); f=field.fdata(mod,m,[1.5+np.sin(2*np.pi*m.centers())])
    else:
        mod=euler.euler1d(); d=md.fvm(mod,m,xnum.muscl(xnum.vanleer),numflux='hllc'); xc=m.centers()
        f=d.fdata_fromprim([1+.2*np.sin(2*np.pi*xc), .3+.1*np.cos(2*np.pi*xc), 1+.1*np.sin(4*np.pi*xc)])
    return mod,d,f
def same(a,b): return all(np.array_equal(x,y) for x,y in zip(a.data,b.data)) and a.time==b.time
ALL=tn.List_Explicit_Integrators+tn.List_Implicit_Integrators+[tn.lsrk4]
N,M=7,5
for kind in ['conv','burgers','euler']:
    for cls in ALL:
        mod,d,f=setup(kind)
        out=[]
        s=cls(m,d); a=s.solve(f,.4,stop={'maxit':N+M})[-1]
        b=s.solve(f,.4,stop={'maxit':N+M})[-1]; out.append(('repeat-same-obj',same(a,b)))
        s2=cls(m,d); c=s2.solve(f,.4,stop={'maxit':N+M})[-1]; out.append(('fresh-obj',same(a,c)))
        # with snapshots
        s3=cls(m,d); ts=list(np.linspace(0.001,a.time*0.99,4)); r=s3.solve(f,.4,ts,stop={'maxit':N+M})
        out.append(('snapshots', same(a,s3.Qn), len(r)))
        # with monitors
        s4=cls(m,d); mon={'residual':{'frequency':2}, 'avg':{'type':'data_average','data': 'q' if kind=='conv' else ('density' if kind=='euler' else None),'frequency':3}}
        if kind=='burgers': mon.pop('avg')
        r=s4.solve(f,.4,stop={'maxit':N+M},monitors=mon); out.append(('monitors',same(a,r[-1]), mon['residual']['output']._it))
        # split
        s5=cls(m,d); r1=s5.solve(f,.4,stop={'maxit':N}); r2=s5.restart(r1[-1],.4,stop={'maxit':M})
        out.append(('split', same(a,r2[-1]), r1[-1].it, r2[-1].it, s5.totnit()))
        print(kind, cls.__name__, out)
