import numpy as np
import flowdyn.mesh as mesh, flowdyn.modelphy.convection as conv, flowdyn.modeldisc as md
import flowdyn.field as field, flowdyn.xnum as xnum, flowdyn.integration as tn
m = mesh.unimesh(ncell=10, length=1.)
mod = conv.model(1.)
rhs = md.fvm(mod, m, xnum.extrapol1())
f0 = field.fdata(mod, m, [np.sin(2*np.pi*m.centers())])
for cls in tn.List_Explicit_Integrators + tn.List_Implicit_Integrators + [tn.lsrk4]:
    s = cls(m, rhs)
    f = f0.copy()
    s.step(f, 0.01)
    print(cls.__name__, f.time)
# gear first step vs CN
s = tn.gear(m, rhs); f=f0.copy(); s.step(f,0.01)
s2 = tn.cranknicolson(m, rhs); g=f0.copy(); s2.step(g,0.01)
print(np.abs(f.data[0]-g.data[0]).max(), np.abs((f.data[0]-f0.data[0]) - 2*(g.data[0]-f0.data[0])).max())
