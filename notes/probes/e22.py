from lib import *
warnings.simplefilter('ignore')
rng=np.random.default_rng(17)
import functools
for epsd in (1e-6, 1.0, 1e2):
    worst_lin=0; worst_cons=0; worst_jac=0
    for trial in range(30):
        nc=int(rng.integers(4,14)); m=rand_mesh(rng,nc=nc)
        mod=conv.model(float(rng.choice([1.3,-.7]))); r=recons()[str(rng.choice(['extrapol1','extrapol2','extrapol3','centered']))]
        d=md.fvm(mod,m,r)
        A=np.zeros((nc,nc))
        for j in range(nc):
            e=np.zeros(nc); e[j]=1; A[:,j]=d.rhs(field.fdata(mod,m,[e]))[0]
        q=rng.uniform(-2,2,nc)+5*(trial%2)
        for cfl in (.1,1,10,100):
            dt=cfl*m.vol().min()/abs(mod.convcoef)
            s=tn.cranknicolson(m,d); s.calc_jacobian=functools.partial(s.calc_jacobian, epsdiff=epsd)
            f=field.fdata(mod,m,[q]); s.step(f,dt)
            ex=np.linalg.solve(np.eye(nc)-dt*A/2,(np.eye(nc)+dt*A/2)@q)
            worst_lin=max(worst_lin,np.abs(f.data[0]-ex).max()/np.abs(q).max()); worst_cons=max(worst_cons,abs(np.sum(m.vol()*(f.data[0]-q)))/np.sum(m.vol()*np.abs(q)))
        # euler jacobian vs central difference reference
        e1=euler.euler1d(); de=md.fvm(e1,m,xnum.muscl(xnum.vanalbada),numflux='hllc')
        xc=(m.xc-m.xf[0])/m.length
        fe=de.fdata_fromprim([1+.3*np.sin(2*np.pi*xc),.4+.2*np.cos(2*np.pi*xc),1+.2*np.sin(4*np.pi*xc)])
        s=tn.implicit(m,de); J=s.calc_jacobian(fe,epsdiff=epsd).copy()
        Jr=np.zeros_like(J)
        for i in range(nc):
            for k in range(3):
                h=1e-5*np.abs(fe.data[k]).mean()
                fp=fe.copy(); fp.data[k][i]+=h; fm=fe.copy(); fm.data[k][i]-=h
                rp=[x.copy() for x in de.rhs(fp)]; rm=[x.copy() for x in de.rhs(fm)]
                for kk in range(3): Jr[kk::3,i*3+k]=(rp[kk]-rm[kk])/(2*h)
        worst_jac=max(worst_jac,np.abs(J-Jr).max()/np.abs(Jr).max())
    print('epsdiff',epsd,'lin step err',worst_lin,'cons',worst_cons,'euler jac relerr',worst_jac)
