# C02: remaining models: conv, burgers, sw, euler2d: consistency, mirror, upwind
from lib import *
warnings.simplefilter('ignore')
rng=np.random.default_rng(23)
worst={}
def upd(k,v): worst[k]=max(worst.get(k,0), float(v) if np.isfinite(v) else 9e9)
N=5000
# convection
for a in (1.7,-0.4):
    c=conv.model(a); cm=conv.model(-a)
    L,R=rng.normal(size=N)*10**rng.uniform(-3,3,N), rng.normal(size=N)*10**rng.uniform(-3,3,N)
    F=c.numflux(None,[L],[R])[0]; upd(('conv','cons'), np.abs(c.numflux(None,[L],[L])[0]-a*L).max()/np.abs(a*L).max())
    Fm=cm.numflux(None,[R],[L])[0]; upd(('conv','mirror'), (np.abs(Fm+F)/(abs(a)*(np.abs(L)+np.abs(R)))).max())
    up=a*L if a>0 else a*R; upd(('conv','upwind'), (np.abs(F-up)/(abs(a)*(np.abs(L)+np.abs(R)))).max())
# burgers
b=burgers.model()
L,R=rng.normal(size=N),rng.normal(size=N)
L[:100]=-R[:100]  # exact antisymmetric
F=b.numflux(None,[L],[R])[0]; upd(('burgers','cons'), np.abs(b.numflux(None,[L],[L])[0]-L*L/2).max())
Fm=b.numflux(None,[-R],[-L])[0]; upd(('burgers','mirror'), np.abs(Fm-F).max())
both=(L>0)&(R>0); upd(('burgers','upwind+'), np.abs(F[both]-L[both]**2/2).max()); both=(L<0)&(R<0); upd(('burgers','upwind-'), np.abs(F[both]-R[both]**2/2).max())
# sw
sw=shw.shallowwater1d(g=9.81)
def sws(n):
    h=10**rng.uniform(-3,3,n); fr=rng.choice([0,1,-1,7],n,p=[.05,.05,.05,.85]); fr=np.where(fr==7,rng.normal(0,2,n),fr); return [h,fr*np.sqrt(9.81*h)]
for fl in ['centered','rusanov','hll']:
    W=sws(N); F=sw.numflux(fl,W,W); P=[W[0]*W[1], W[0]*W[1]**2+.5*9.81*W[0]**2]
    sc=[W[0]*(np.abs(W[1])+np.sqrt(9.81*W[0])), P[1]]
    for i in range(2): upd(('sw',fl,'cons',i), (np.abs(F[i]-P[i])/sc[i]).max())
    L,R=sws(N),sws(N); F=sw.numflux(fl,L,R); Fm=sw.numflux(fl,[R[0],-R[1]],[L[0],-L[1]])
    sm=np.maximum(np.abs(L[1])+np.sqrt(9.81*L[0]),np.abs(R[1])+np.sqrt(9.81*R[0])); S=[sm*np.maximum(L[0],R[0]), np.maximum(L[0]*L[1]**2+.5*9.81*L[0]**2,R[0]*R[1]**2+.5*9.81*R[0]**2)]
    for i,sg in enumerate([-1,1]): upd(('sw',fl,'mirror',i), (np.abs(Fm[i]-sg*F[i])/S[i]).max())
    if fl=='hll':
        sup=(L[1]-np.sqrt(9.81*L[0])>0)&(R[1]-np.sqrt(9.81*R[0])>0)
        PL=[L[0]*L[1], L[0]*L[1]**2+.5*9.81*L[0]**2]
        for i in range(2): upd(('sw',fl,'upwind',i), (np.abs(F[i]-PL[i])/S[i])[sup].max())
# euler2d
e2=euler.euler2d(); g=1.4
def e2s(n):
    rho=10**rng.uniform(-3,3,n); p=10**rng.uniform(-3,3,n); c=np.sqrt(g*p/rho); M=np.abs(rng.normal(0,2,n)); th=rng.uniform(0,2*np.pi,n)
    return [rho,np.vstack([M*c*np.cos(th),M*c*np.sin(th)]),p]
for fl in ['centered','hlle']:
    for dirn in ([1,0],[0,1]):
        d=np.tile(np.array(dirn,dtype=np.int8)[:,None],(1,N)); nrm=np.array(dirn,float)[:,None]
        W=e2s(N); F=e2.numflux(fl,W,W,d)
        un=(W[1]*nrm).sum(0); H=g/(g-1)*W[2]/W[0]+.5*(W[1]**2).sum(0)
        P=[W[0]*un, W[0]*un*W[1]+W[2]*nrm, W[0]*un*H]
        V=np.sqrt((W[1]**2).sum(0)); c=np.sqrt(g*W[2]/W[0]); sc=[W[0]*(V+c), W[0]*V**2+W[2], (V+c)*(W[2]*g/(g-1)+.5*W[0]*V**2)]
        upd(('e2',fl,tuple(dirn),'cons0'), (np.abs(F[0]-P[0])/sc[0]).max()); upd(('e2',fl,tuple(dirn),'cons1'), (np.abs(F[1]-P[1]).max(0)/sc[1]).max()); upd(('e2',fl,tuple(dirn),'cons2'), (np.abs(F[2]-P[2])/sc[2]).max())
        # mirror: reflect normal component
        L,R=e2s(N),e2s(N); F=e2.numflux(fl,L,R,d)
        refl=lambda W: [W[0], W[1]-2*(W[1]*nrm).sum(0)*nrm, W[2]]
        Fm=e2.numflux(fl,refl(R),refl(L),d)
        def scale(L,R):
            VL=np.sqrt((L[1]**2).sum(0)); VR=np.sqrt((R[1]**2).sum(0)); sm=np.maximum(VL+np.sqrt(g*L[2]/L[0]),VR+np.sqrt(g*R[2]/R[0]))
            return [sm*np.maximum(L[0],R[0]), np.maximum(L[0]*VL**2+L[2],R[0]*VR**2+R[2]), sm*np.maximum(L[2]*g/(g-1)+.5*L[0]*VL**2,R[2]*g/(g-1)+.5*R[0]*VR**2)]
        S=scale(L,R)
        upd(('e2',fl,tuple(dirn),'mir0'), (np.abs(Fm[0]+F[0])/S[0]).max()); upd(('e2',fl,tuple(dirn),'mir2'), (np.abs(Fm[2]+F[2])/S[2]).max())
        # momentum: normal component unchanged, tangential flips sign
        Fn=(F[1]*nrm).sum(0); Fmn=(Fm[1]*nrm).sum(0); Ft=F[1]-Fn*nrm; Fmt=Fm[1]-Fmn*nrm
        upd(('e2',fl,tuple(dirn),'mir1n'), (np.abs(Fmn-Fn)/S[1]).max()); upd(('e2',fl,tuple(dirn),'mir1t'), (np.abs(Fmt+Ft).max(0)/S[1]).max())
for k,v in sorted(worst.items(), key=lambda kv:-kv[1])[:16]: print(k,v)
