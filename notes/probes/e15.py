from lib import *
warnings.simplefilter('ignore')
m=mesh.unimesh(ncell=8,length=1.)
e=euler.euler1d()
for bc in ['per','sym']:
    d=md.fvm(e,m,xnum.extrapol1(),numflux='hllc',bcL={'type':bc},bcR={'type':bc})
    for u in (0., 0.3):
        f=d.fdata_fromprim([1.,u,1.])
        for cls in [tn.implicit, tn.cranknicolson, tn.gear, tn.rk3ssp]:
            s=cls(m,d)
            r=s.solve(f,1.0,stop={'maxit':3})
            print(bc,u,cls.__name__, 'nan' if r[-1].isnan() else max(np.abs(a-b).max() for a,b in zip(r[-1].data,f.data)))
