from lib import *
rng = np.random.default_rng(5)
e2 = euler.euler2d()
for nx,ny in [(1,1),(2,1),(1,2),(3,2)]:
    m2 = mesh2d.mesh2d(nx,ny,1.,1.); n=nx*ny
    for l,b in [('sym','per'),('sym','sym'),('per','sym')]:
        bl={'left':{'type':l},'right':{'type':l},'bottom':{'type':b},'top':{'type':b}}
        d2 = md.fvm2d(e2, m2, xnum.extrapol2d1(), bl, numflux='centered')
        P=[rng.uniform(1,1.5,n), rng.uniform(-.5,.5,(2,n)), rng.uniform(1,1.5,n)]
        r=d2.rhs(d2.fdata_fromprim(P))
        print(nx,ny,l,b,[bool(np.isfinite(x).all()) for x in r])
