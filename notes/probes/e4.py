# C01 conservation probe
from lib import *
warnings.simplefilter('ignore')
rng = np.random.default_rng(1)
worst = {}
def models():
    return [('conv+', conv.model(1.3), None), ('conv-', conv.model(-0.7), None), ('burgers', burgers.model(), None)] + \
      [('sw/'+f, shw.shallowwater1d(), f) for f in ['centered','rusanov','hll']] + \
      [('euler/'+f, euler.euler1d(), f) for f in ['centered','centeredmassflow','hlle','hllc']] + \
      [('nozzle/'+f, euler.nozzle(sectionlaw=lambda x: 1.+0*x), f) for f in ['hllc']]
for it in range(300):
    m = rand_mesh(rng)
    nc = m.ncell
    for name, mod, flux in models():
        for rn, r in recons().items():
            for bc in ['per','sym']:
                if bc=='sym' and mod.neq==1: continue
                if mod.neq==1: q=[rng.uniform(-2,2,nc)]
                elif mod.neq==2:
                    h=rng.uniform(0.5,2,nc); q=mod.prim2cons([h, rng.uniform(-1,1,nc)])
                else:
                    q=mod.prim2cons([rng.uniform(0.5,2,nc), rng.uniform(-1,1,nc), rng.uniform(0.5,2,nc)])
                b={'type':bc}
                d = md.fvm(mod, m, r, numflux=flux, bcL=b, bcR=b) if flux else md.fvm(mod, m, r, bcL=b, bcR=b)
                f = field.fdata(mod, m, q)
                res = d.rhs(f)
                vol = m.vol()
                for i in range(mod.neq):
                    if bc=='sym' and i==1: continue
                    tot = np.sum(vol*res[i]); scale = np.sum(np.abs(d.flux[i]))+1e-300
                    key=(name, rn, bc, i)
                    worst[key]=max(worst.get(key,0), abs(tot)/scale)
bad = {k:v for k,v in worst.items() if v>1e-13}
print(len(worst), 'combos; worst', max(worst.values()))
for k,v in sorted(bad.items(), key=lambda kv:-kv[1])[:40]: print(k, v)
