import numpy as np
import flowdyn.modelphy.shallowwater as shw
def numflux_rusanov(self, pdataL, pdataR, dir=None):
    g=self.g; hL,uL,hR,uR=pdataL[0],pdataL[1],pdataR[0],pdataR[1]
    cL=np.sqrt(g*hL); cR=np.sqrt(g*hR); cmax=np.maximum(abs(uL)+cL,abs(uR)+cR)
    qL=hL*uL; qR=hR*uR
    return [.5*(qL+qR)-.5*cmax*(hR-hL), .5*((qL*uL+.5*g*hL**2)+(qR*uR+.5*g*hR**2))-.5*cmax*(qR-qL)]
shw.shallowwater1d._numfluxdict.dict['rusanov']=numflux_rusanov
exec(open('e18.py').read())
