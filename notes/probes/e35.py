from lib import *
import flowdyn.solution.euler_nozzle as solN
from scipy.optimize import brentq
warnings.simplefilter('ignore')
g=1.4
def S(x): return 1.-.5*np.exp(-.5*(x-5.)**2)
m=mesh.unimesh(ncell=50,length=10.); A=S(m.centers())
mod=euler.nozzle(sectionlaw=S)
def sigma(M,g=g): return (1/M)*((2/(g+1))*(1+(g-1)/2*M*M))**((g+1)/(2*(g-1)))
def PiPs(M,g=g): return (1+(g-1)/2*M*M)**(g/(g-1))
def msub(s): return brentq(lambda M: sigma(M)-s,1e-8,1.)
def msup(s): return brentq(lambda M: sigma(M)-s,1.,50.)
At=A.min(); it=A.argmin()
def indep(NPR):
    # fully subsonic if outlet Mach from NPR gives A*/A_exit < ... 
    Ms=np.sqrt(((NPR)**((g-1)/g)-1)*2/(g-1))
    Astar=A[-1]/sigma(Ms)
    if Astar<=At*(1+1e-12) and Ms<1:
        M=np.array([msub(a/Astar) for a in A]); Pt=np.full_like(A,NPR)
        return M, Pt/PiPs(M)
    return None
n=solN.nozzle(mod,A,NPR=1.05)
try: n.Ptot(); print('Ptot ok')
except Exception as e: print('Ptot() ->',type(e).__name__,e)
print('NPR0,NPRsw,NPR1',n.NPR0,n.NPRsw,n.NPR1)
for NPR in (1.01,1.05,1.1,1.2):
    n=solN.nozzle(mod,A,NPR=NPR); r=indep(NPR)
    if r is None: print(NPR,'not subsonic'); continue
    print(NPR,'max|dM|',np.abs(n.Mach()-r[0]).max(),'max|dPs|',np.abs(n.Ps()-r[1]).max())
# shocked case: NPR between NPR0 and NPRsw
NPR=(n.NPR0+n.NPRsw)/2; n=solN.nozzle(mod,A,NPR=NPR); print('shock case M range',n.Mach().min(),n.Mach().max(), 'Ps exit',n.Ps()[-1])
# independent: exit static p=1 (normalised), mass flow choked at throat: find shock Mach Msh s.t. exit conditions
def exit_ps(Msh):
    ptr=( ((g+1)*Msh**2/((g-1)*Msh**2+2))**(g/(g-1)) * ((g+1)/(2*g*Msh**2-(g-1)))**(1/(g-1)) )
    Astar2=At/ptr; Me=msub(A[-1]/Astar2); return NPR*ptr/PiPs(Me)
Msh=brentq(lambda M: exit_ps(M)-1.,1.0001,msup(A[-1]/At)); 
ptr=( ((g+1)*Msh**2/((g-1)*Msh**2+2))**(g/(g-1)) * ((g+1)/(2*g*Msh**2-(g-1)))**(1/(g-1)) )
print('independent shock Mach',Msh,'ptot ratio',ptr,' packaged Pt after shock/NPR', n._Pt[-1]/NPR, 'packaged max M', n.Mach().max())
