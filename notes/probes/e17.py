# C09 TVD / max principle
from lib import *
warnings.simplefilter('ignore')
rng=np.random.default_rng(13)
worst={}
def upd(k,v): worst[k]=max(worst.get(k,-1), v if np.isfinite(v) else 9e9)
def tv(q): return np.abs(np.diff(np.concatenate([q,q[:1]]))).sum()
def data(rng,nc,kind):
    if kind=='rand': return rng.uniform(-1,1,nc)
    if kind=='step': q=np.zeros(nc); i,j=sorted(rng.integers(0,nc,2)); q[i:j+1]=rng.uniform(.5,2); return q-rng.uniform(0,1)
    if kind=='saw': return (np.arange(nc)%int(rng.integers(2,5)))*rng.uniform(.3,1)-rng.uniform(0,1)
    return np.sign(np.sin(2*np.pi*np.arange(nc)/nc*rng.integers(1,4)+rng.uniform(0,6)))*rng.uniform(.2,2)
INTS=[tn.explicit, tn.rk2_heun, tn.rk3ssp]
for it in range(400):
    nc=int(rng.integers(3,40)); kind=rng.choice(['rand','step','saw','sq'])
    q0=data(rng,nc,kind)+rng.uniform(-1e-3,1e-3,nc)*0+rng.uniform(1e-4,1e-3)
    for mname in ['conv+','conv-','burgers']:
        mod = conv.model(1.7) if mname=='conv+' else conv.model(-0.6) if mname=='conv-' else burgers.model()
        for rn in ['extrapol1','muscl(minmod)','muscl(vanalbada)','muscl(vanleer)','muscl(superbee)']:
            if rn=='extrapol1' and mname!='burgers': m=rand_mesh(rng,nc=nc); cflmax=1.
            elif rn=='extrapol1': m=mesh.unimesh(ncell=nc,length=2.); cflmax=1.   # burgers first-order: property says convection only for first-order any mesh; still probe
            else: m=mesh.unimesh(ncell=nc,length=float(rng.uniform(.5,3))); cflmax=.5
            d=md.fvm(mod,m,recons()[rn])
            for cls in INTS:
                cfl=float(rng.uniform(.05,cflmax)) if rng.random()<.7 else cflmax
                s=cls(m,d); f=field.fdata(mod,m,[q0.copy()])
                for stepi in range(6):
                    dt=np.min(d.calc_timestep(f,cfl))
                    if not np.isfinite(dt): break
                    old=f.data[0].copy(); s.step(f,dt); new=f.data[0]
                    sc=max(np.abs(old).max(),1e-300)
                    upd((mname,rn,cls.__name__,'max'), (new.max()-old.max())/sc); upd((mname,rn,cls.__name__,'min'), (old.min()-new.min())/sc)
                    upd((mname,rn,cls.__name__,'tv'), (tv(new)-tv(old))/(sc*nc))
for k,v in sorted(worst.items(), key=lambda kv:-kv[1])[:30]: print(k,v)
