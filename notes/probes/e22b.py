from lib import *
warnings.simplefilter('ignore')
np.set_printoptions(linewidth=200, precision=4)
m=mesh.unimesh(ncell=4,length=1.); nc=4
e1=euler.euler1d(); de=md.fvm(e1,m,xnum.extrapol1(),numflux='hllc')
xc=m.xc
fe=de.fdata_fromprim([1+.3*np.sin(2*np.pi*xc),.4+.2*np.cos(2*np.pi*xc),1+.2*np.sin(4*np.pi*xc)])
s=tn.implicit(m,de); J=s.calc_jacobian(fe,epsdiff=1.0).copy()
Jr=np.zeros_like(J)
for i in range(nc):
    for k in range(3):
        h=1e-5*np.abs(fe.data[k]).mean()
        fp=fe.copy(); fp.data[k][i]+=h; fm=fe.copy(); fm.data[k][i]-=h
        rp=[x.copy() for x in de.rhs(fp)]; rm=[x.copy() for x in de.rhs(fm)]
        for kk in range(3): Jr[kk::3,i*3+k]=(rp[kk]-rm[kk])/(2*h)
print(J[:6,:6]); print(Jr[:6,:6]); print(np.abs(J-Jr).max())
