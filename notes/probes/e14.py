from lib import *
warnings.simplefilter('ignore')
rng = np.random.default_rng(11)
for trial in range(6):
    nc=int(rng.integers(4,14)); m=rand_mesh(rng, nc=nc)
    mod=conv.model(float(rng.choice([1.3,-.7])))
    r=recons()[str(rng.choice(['extrapol1','extrapol2','extrapol3','centered']))]
    d=md.fvm(mod,m,r)
    A=np.zeros((nc,nc))
    for j in range(nc):
        e=np.zeros(nc); e[j]=1; A[:,j]=d.rhs(field.fdata(mod,m,[e]))[0]
    q=rng.uniform(-2,2,nc)+ (0 if trial%2 else 5.)
    for cls,ex in [(tn.implicit, lambda z: np.linalg.solve(np.eye(nc)-z, q)), (tn.cranknicolson, lambda z: np.linalg.solve(np.eye(nc)-z/2, (np.eye(nc)+z/2)@q))]:
        for cfl in (0.1, 1, 10, 100):
            dt=cfl*m.vol().min()/abs(mod.convcoef)
            s=cls(m,d); f=field.fdata(mod,m,[q]); s.step(f,dt)
            exact=ex(dt*A)
            J=s.jacobian
            print(cls.__name__, 'cfl',cfl,'err step', np.abs(f.data[0]-exact).max()/np.abs(q).max(), 'jac relerr', np.abs(J-A).max()/np.abs(A).max(), 'consv', abs(np.sum(m.vol()*(f.data[0]-q)))/np.sum(m.vol()*np.abs(q)))
