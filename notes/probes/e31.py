from lib import *
class M: neq=1; shape=[1]
class Me:
    def __init__(s,n): s.ncell=n
class Disc:
    def rhs(self,f): 
        t=f.time; y=f.data[0]
        return [np.cos(3*t)*y - y**2*np.sin(t) + np.array([np.sin(2*t), t])]
from scipy.integrate import solve_ivp
def ref(T):
    s=solve_ivp(lambda t,y: np.cos(3*t)*y - y**2*np.sin(t)+np.array([np.sin(2*t),t]),(0,T),[1.,.5],rtol=1e-13,atol=1e-14,method='DOP853'); return s.y[:,-1]
T=1.0; yref=ref(T)
for cls in tn.List_Explicit_Integrators+[tn.lsrk4]:
    errs=[]
    for n in (20,40,80,160):
        s=cls(None,Disc()); f=field.fdata(M(),Me(2),[np.array([1.,.5])],t=0.)
        for i in range(n): s.step(f,T/n)
        errs.append(np.abs(f.data[0]-yref).max())
    print(cls.__name__, ['%.2e'%e for e in errs], [round(np.log2(errs[i]/errs[i+1]),2) for i in range(3)], 'time', f.time)
