import numpy as np
import flowdyn.mesh as mesh, flowdyn.modelphy.convection as conv, flowdyn.modeldisc as md
import flowdyn.field as field, flowdyn.xnum as xnum, flowdyn.integration as tn
m = mesh.unimesh(ncell=10, length=1.)
mod = conv.model(1.)
rhs = md.fvm(mod, m, xnum.extrapol1())
f0 = field.fdata(mod, m, [np.sin(2*np.pi*m.centers())])
dt = 0.5*0.1
def run(cls, tsave, stop=None, f=f0):
    s = cls(m, rhs)
    calls=[]
    orig = s.step
    def step(fld, d):
        calls.append((fld.time, float(np.min(d))))
        return orig(fld, d)
    s.step = step
    r = s.solve(f, 0.5, tsave, stop=stop)
    print(cls.__name__, 'tsave', tsave, 'stop', stop, '-> times', [x.time for x in r], 'its', [x.it for x in r], 'nit', s.nit())
    print('    steps', [(round(a,6), round(b,6)) for a,b in calls])
run(tn.explicit, [0.06, 0.07, 0.08, 0.3])
run(tn.explicit, [0.06, 0.07])
run(tn.explicit, [0.0, 0.1])
run(tn.implicit, [0.0, 0.1])
run(tn.explicit, [0.1, 0.2], stop={'maxit': 10})
run(tn.explicit, [0.1, 0.5], stop={'tottime': 0.2})
run(tn.explicit, [], stop={'maxit': 3})
f1=f0.copy(); f1.time=1.0
run(tn.explicit, [0.5, 1.0, 1.02, 1.2], f=f1)
