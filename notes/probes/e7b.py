from lib import *
e=euler.euler1d()
rng=np.random.default_rng(0)
for i in range(2000):
    rho,u,p = rng.uniform(1,1.5), rng.uniform(-.5,.5), rng.uniform(1,1.5)
    ptot, rttot, pp = rng.uniform(2.5,4), rng.uniform(.8,1.5), rng.uniform(.5,1.5)
    for nm in ['insub_cbc','outsub_qtot','insub','insup','outsub_rh','outsub_nrcbc']:
        for d in (-1,1):
            r = e.namedBC(nm, d, [np.array([rho]),np.array([u]),np.array([p])], {'ptot':ptot,'rttot':rttot,'p':pp})
            if not all(np.all(np.isfinite(x)) for x in r):
                print(nm, d, rho,u,p,ptot,rttot,pp, r); raise SystemExit
