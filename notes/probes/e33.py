from lib import *
warnings.simplefilter('ignore')
rng=np.random.default_rng(31)
out=[]
for it in range(60):
    mk=str(rng.choice(['uni','refined','morphed','arb'])); mm=rand_mesh(rng,kind=mk,nc=int(rng.integers(3,14))); n=mm.ncell
    mo=conv.model(float(rng.choice([1.2,-.8]))); q0=[rng.uniform(-1,1,n)+float(rng.choice([0,3]))]
    rn=str(rng.choice(['extrapol1','extrapol3','extrapol2','centered','fromm']))
    dd=md.fvm(mo,mm,recons()[rn])
    for cls in tn.List_Implicit_Integrators:
        for cfl in (10.,100.):
            f0=field.fdata(mo,mm,q0); s=cls(mm,dd); r=s.solve(f0,cfl,stop={'maxit':6})[-1]
            vol=mm.vol(); err=abs(np.sum(vol*(r.data[0]-f0.data[0])))/np.sum(vol*np.abs(f0.data[0]))
            J=s.jacobian; colsum=np.abs(vol@J).max()/np.abs(J*vol[:,None]).max()
            out.append((err,cls.__name__,cfl,mk,rn,n,colsum,float(np.abs(r.data[0]).max())))
for o in sorted(out)[-8:]: print(o)
