# on FIXED scratch tree: C06 temporal order + gear recurrence; C01 solve-level conservation all integrators; C07 random tsave log-check
from lib import *
from scipy.linalg import expm
warnings.simplefilter('ignore')
rng=np.random.default_rng(30)
print(tn.__file__)
# --- C06 temporal order
nc=16; m=mesh.unimesh(ncell=nc,length=1.); mod=conv.model(1.); d=md.fvm(mod,m,xnum.extrapol3())
A=np.zeros((nc,nc))
for j in range(nc):
    e=np.zeros(nc); e[j]=1; A[:,j]=d.rhs(field.fdata(mod,m,[e]))[0]
q=np.sin(2*np.pi*m.xc)+.3*np.cos(4*np.pi*m.xc); T=.25; ex=expm(T*A)@q
for cls in tn.List_Implicit_Integrators:
    errs=[]
    for n in (8,16,32,64):
        s=cls(m,d); f=field.fdata(mod,m,[q.copy()])
        for i in range(n): s.step(f,T/n)
        errs.append(np.abs(f.data[0]-ex).max())
    print(cls.__name__, ['%.2e'%e for e in errs], [round(np.log2(errs[i]/errs[i+1]),2) for i in range(3)])
# gear recurrence vs exact linear algebra
s=tn.gear(m,d); f=field.fdata(mod,m,[q.copy()]); dt=.7*m.vol().min(); I=np.eye(nc)
Q0=q.copy(); s.step(f,dt); Q1=np.linalg.solve(I-dt*A/2,(I+dt*A/2)@Q0); print('gear step1 err', np.abs(f.data[0]-Q1).max())
prev,cur=Q0,Q1
for k in range(5):
    s.step(f,dt); dQ=np.linalg.solve(1.5*I-dt*A, dt*A@cur+.5*(cur-prev)); prev,cur=cur,cur+dQ
    print('gear step',k+2,'err',np.abs(f.data[0]-cur).max(), 'bdf2 residual', np.abs((3*cur-4*prev+ (prev-0))).max()*0)
# --- C01 solve-level conservation
worst={}
ALL=tn.List_Explicit_Integrators+tn.List_Implicit_Integrators+[tn.lsrk4]
for it in range(30):
    mm=rand_mesh(rng,nc=int(rng.integers(3,14))); n=mm.ncell
    for fam in ['conv','burgers','euler','sw']:
        if fam=='conv': mo=conv.model(float(rng.choice([1.2,-.8]))); q0=[rng.uniform(-1,1,n)]; fl=None
        elif fam=='burgers': mo=burgers.model(); q0=[rng.uniform(.3,1.5,n)]; fl=None
        elif fam=='euler': mo=euler.euler1d(); q0=mo.prim2cons([rng.uniform(1,1.5,n),rng.uniform(-.4,.4,n),rng.uniform(1,1.5,n)]); fl=str(rng.choice(['hlle','hllc']))
        else: mo=shw.shallowwater1d(); q0=mo.prim2cons([rng.uniform(1,1.5,n),rng.uniform(-.4,.4,n)]); fl=str(rng.choice(['rusanov','hll']))
        rn=str(rng.choice(['extrapol1','muscl(minmod)','muscl(vanleer)']))
        bc={'type':str(rng.choice(['per','sym']))} if mo.neq>1 else {'type':'per'}
        dd=md.fvm(mo,mm,recons()[rn],bcL=bc,bcR=bc,**({'numflux':fl} if fl else {}))
        for cls in ALL:
            imp=cls in tn.List_Implicit_Integrators
            cfl=float(rng.choice([.3,2.,10.])) if (imp and fam=='conv') else .3
            f0=field.fdata(mo,mm,q0)
            try: r=cls(mm,dd).solve(f0,cfl,stop={'maxit':6})[-1]
            except Exception as ex: worst[(cls.__name__,fam,'EXC')]=1; continue
            vol=mm.vol()
            for i in range(mo.neq):
                if bc['type']=='sym' and i==1: continue
                err=abs(np.sum(vol*(r.data[i]-f0.data[i])))/np.sum(vol*np.abs(f0.data[i]))
                k=(cls.__name__,'impl-cfl%g'%cfl if imp else 'expl'); worst[k]=max(worst.get(k,0),err if np.isfinite(err) else 9e9)
for k,v in sorted(worst.items(), key=lambda kv:-kv[1])[:12]: print(k,v)
