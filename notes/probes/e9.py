# C11: linear exactness at interior faces, kappa stencil
from lib import *
warnings.simplefilter('ignore')
rng = np.random.default_rng(6)
worst={}
def upd(k,v): worst[k]=max(worst.get(k,0), v if np.isfinite(v) else 9e9)
mod=conv.model(1.)
for it in range(300):
    m = rand_mesh(rng, nc=int(rng.integers(4,20))); nc=m.ncell
    a,b = rng.uniform(-3,3,2)
    q = a*m.xc+b
    for rn,r in recons().items():
        d=md.fvm(mod,m,r,bcL={'type':'dirichlet','prim':[0.]},bcR={'type':'dirichlet','prim':[0.]})
        d.rhs(field.fdata(mod,m,[q]))
        ex = a*m.xf+b
        sc=np.abs(ex).max()+abs(a)*m.length
        if rn=='extrapol1':
            upd((rn,'adj'), max(np.abs(d.pL[0][1:]-q).max(), np.abs(d.pR[0][:-1]-q).max()))
        else:
            upd((rn,'L'), np.abs(d.pL[0][2:nc]-ex[2:nc]).max()/sc)   # faces 2..nc-1
            upd((rn,'R'), np.abs(d.pR[0][1:nc-1]-ex[1:nc-1]).max()/sc) # faces 1..nc-2
        # constant
        d.rhs(field.fdata(mod,m,[np.full(nc,b)]))
        upd((rn,'const'), max(np.abs(d.pL[0][1:]-b).max(), np.abs(d.pR[0][:-1]-b).max()))
for k,v in sorted(worst.items(), key=lambda kv:-kv[1])[:12]: print(k,v)
# kappa stencil: rhs on unit impulses, uniform periodic mesh
worst={}
ks={'extrapol2':-1,'fromm':0,'quick':.5,'extrapol3':1/3.,'centered':1,'extrapolk(-0.3)':-.3}
for nc in range(3,12):
  for a in (1.3,-0.7):
    m=mesh.unimesh(ncell=nc,length=2.); dx=2./nc; mod=conv.model(a)
    for rn,k in ks.items():
        d=md.fvm(mod,m,recons()[rn])
        A=np.zeros((nc,nc))
        for j in range(nc):
            e=np.zeros(nc); e[j]=1; A[:,j]=d.rhs(field.fdata(mod,m,[e]))[0]
        # expected: upwind-biased kappa scheme. for a>0: face value u_{i+1/2} = u_i + (1-k)/4 (u_i-u_{i-1}) + (1+k)/4 (u_{i+1}-u_i)
        E=np.zeros((nc,nc))
        for i in range(nc):
            def face(i, sgn):  # returns coefficient dict for face i+1/2
                c={}
                if sgn>0:
                    for off,co in [(0,1+(1-k)/4-(1+k)/4),(-1,-(1-k)/4),(1,(1+k)/4)]: c[(i+off)%nc]=c.get((i+off)%nc,0)+co
                else: # from right cell i+1
                    for off,co in [(1,1+(1-k)/4-(1+k)/4),(2,-(1-k)/4),(0,(1+k)/4)]: c[(i+off)%nc]=c.get((i+off)%nc,0)+co
                return c
            fr=face(i,a); fl=face(i-1,a)
            for j,co in fr.items(): E[i,j]-=a*co/dx
            for j,co in fl.items(): E[i,j]+=a*co/dx
        upd((rn,a>0), np.abs(A-E).max()*dx/abs(a))
for k,v in sorted(worst.items(), key=lambda kv:-kv[1])[:12]: print(k,v)
