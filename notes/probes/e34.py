from lib import *
m=mesh.unimesh(ncell=10,length=1.); mod=conv.model(1.); d=md.fvm(mod,m,xnum.extrapol1())
f0=field.fdata(mod,m,[np.sin(2*np.pi*m.centers())])
mon={'residual':{'frequency':2}}
s=tn.rk3ssp(m,d,monitors=mon)
s.solve(f0,.5,stop={'maxit':4}); print(mon['residual']['output']._it)
s.solve(f0,.5,stop={'maxit':4}); print(mon['residual']['output']._it)
s2=tn.rk3ssp(m,d); print('shared default dict id equal:', s2.monitors is tn.rk3ssp(m,d).monitors)
