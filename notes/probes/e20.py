from lib import *
import time
warnings.simplefilter('ignore')
rng=np.random.default_rng(15)
def run(rn, nc, a, k, ph, T, integ=tn.rk4, cfl=.2):
    m=mesh.unimesh(ncell=nc,length=1.); mod=conv.model(a); d=md.fvm(mod,m,recons()[rn])
    f=field.fdata(mod,m,[np.sin(2*np.pi*k*m.xc+ph)])
    s=integ(m,d); r=s.solve(f,cfl,[T])
    ex=np.sin(2*np.pi*k*(m.xc-a*T)+ph)
    return np.abs(r[-1].data[0]-ex).mean()
t0=time.time()
for rn in ['extrapol1','extrapol2','fromm','quick','extrapol3','centered','muscl(minmod)','muscl(vanalbada)','muscl(vanleer)','muscl(superbee)']:
    a=float(rng.choice([-1,1])*rng.uniform(.5,2)); k=int(rng.integers(1,3)); ph=float(rng.uniform(0,6)); T=0.3/abs(a)
    errs=[run(rn,nc,a,k,ph,T) for nc in (20,40,80,160)]
    print(rn, a, k, ['%.2e'%e for e in errs], 'orders', [round(np.log2(errs[i]/errs[i+1]),2) for i in range(3)])
print(time.time()-t0)
