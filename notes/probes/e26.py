from lib import *
warnings.simplefilter('ignore')
m=mesh.unimesh(ncell=10,length=1.); mod=conv.model(1.); d=md.fvm(mod,m,xnum.extrapol1())
f0=field.fdata(mod,m,[np.sin(2*np.pi*m.centers())])
s=tn.explicit(m,d)
print('tsave=[0.0] ->', len(s.solve(f0,.5,[0.0])))
print('tsave=[0.0], maxit 3 ->', [ (x.time,x.it) for x in s.solve(f0,.5,[0.0],stop={'maxit':3})])
r=s.solve(f0,.5,[0.2]); print('restart at tsave[-1]:', len(s.restart(r[-1],.5,[0.1,0.2])))
# caller field not modified
g=f0.copy(); s.solve(f0,.5,[0.1,0.2]); print('unmodified', np.array_equal(g.data[0],f0.data[0]), f0.time, f0.it)
# 2D BC quick
e2=euler.euler2d(); rng=np.random.default_rng(0)
m2=mesh2d.mesh2d(3,2)
for tag in m2.list_of_bctags():
    n=m2.normal_of_bc(tag); nf=n.shape[1]
    data=[rng.uniform(1,2,nf), rng.uniform(-1,1,(2,nf)), rng.uniform(1,2,nf)]
    r=e2.namedBC('sym', n, data, {})
    vn=(r[1]*n).sum(0); vn0=(data[1]*n).sum(0); vt=(r[1]-vn*n); vt0=(data[1]-vn0*n)
    r2=e2.namedBC('insub', n, data, {'ptot':5.,'rttot':1.3})
    print(tag, m2.bcface_orientation(tag), n[:,0], 'sym ok', np.allclose(vn,-vn0) and np.allclose(vt,vt0), 'insub inflow', ((r2[1]*n).sum(0)*(1 if m2.bcface_orientation(tag)=='outward' else -1) <=0).all())
