# C02 consistency, mirror symmetry, upwinding
from lib import *
warnings.simplefilter('ignore')
rng=np.random.default_rng(18)
worst={}
def upd(k,v): worst[k]=max(worst.get(k,0), v if np.isfinite(v) else 9e9)
N=4000
g=1.4
def eul_states(n):
    rho=10**rng.uniform(-3,3,n); p=10**rng.uniform(-3,3,n); c=np.sqrt(g*p/rho); M=rng.choice([0,1,-1,1e-8],n,p=[.05,.05,.05,.85])
    M=np.where(M==1e-8, rng.normal(0,2,n), M); return [rho,M*c,p]
e1=euler.euler1d(); e2=euler.euler2d(); sw=shw.shallowwater1d(); bg=burgers.model()
def phys_e(W): rho,u,p=W; H=g/(g-1)*p/rho+.5*u*u; return [rho*u,rho*u*u+p,rho*u*H]
for flux in ['centered','centeredmassflow','hlle','hllc']:
    W=eul_states(N); F=e1.numflux(flux,W,W); P=phys_e(W)
    sc=[np.abs(W[0])*(np.abs(W[1])+np.sqrt(g*W[2]/W[0])), W[0]*W[1]**2+W[2], (np.abs(W[1])+np.sqrt(g*W[2]/W[0]))*(W[2]*g/(g-1)+.5*W[0]*W[1]**2)]
    for i in range(3): upd(('e1 cons',flux,i), (np.abs(F[i]-P[i])/sc[i]).max())
    L,R=eul_states(N),eul_states(N)
    # equal-state subset & near
    F=e1.numflux(flux,L,R); Fm=e1.numflux(flux,[R[0],-R[1],R[2]],[L[0],-L[1],L[2]])
    scm=[np.maximum(a,b) for a,b in zip([np.abs(x)+1e-300 for x in F], [1e-300]*3)]
    smax=np.maximum(np.abs(L[1])+np.sqrt(g*L[2]/L[0]),np.abs(R[1])+np.sqrt(g*R[2]/R[0]))
    S=[smax*np.maximum(L[0],R[0]), np.maximum(L[0]*L[1]**2+L[2],R[0]*R[1]**2+R[2]), smax*np.maximum(L[2]*g/(g-1)+.5*L[0]*L[1]**2, R[2]*g/(g-1)+.5*R[0]*R[1]**2)]
    for i,sg in enumerate([-1,1,-1]): upd(('e1 mirror',flux,i), (np.abs(Fm[i]-sg*F[i])/S[i]).max())
print({k:v for k,v in worst.items()})
