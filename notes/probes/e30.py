from lib import *
warnings.simplefilter('ignore')
rng=np.random.default_rng(24)
worst={}
def upd(k,v): worst[k]=max(worst.get(k,0), float(v) if np.isfinite(v) else 9e9)
e2=euler.euler2d(); g=1.4
# C03 2D fixed points
for it in range(150):
    nx,ny=int(rng.integers(1,6)),int(rng.integers(1,6)); m2=mesh2d.mesh2d(nx,ny,float(rng.uniform(.5,3)),float(rng.uniform(.5,3))); n=nx*ny
    rho,p=10**rng.uniform(-1,1),10**rng.uniform(-1,1); c=np.sqrt(g*p/rho); M=rng.choice([rng.uniform(.05,.9),rng.uniform(1.1,3)]); th=rng.uniform(0,2*np.pi)
    V=np.array([M*c*np.cos(th),M*c*np.sin(th)]); f=1+.2*M*M; ptot=p*f**3.5; rttot=p/rho*f
    cases={}
    cases['per']={t:{'type':'per'} for t in m2.list_of_bctags()}
    def dir_prim(tag):
        nf=nx if tag in('top','bottom') else ny
        return [np.full(nf,rho), np.tile(V[:,None],(1,nf)), np.full(nf,p)]
    cases['dirichlet']={t:{'type':'dirichlet','prim':dir_prim(t)} for t in m2.list_of_bctags()}
    # insup(angle) on inflow sides, outsup on outflow
    bl={}
    for t,nvec in [('left',(-1,0)),('right',(1,0)),('bottom',(0,-1)),('top',(0,1))]:
        inflow = V[0]*nvec[0]+V[1]*nvec[1] < 0
        bl[t]={'type':'insup','ptot':ptot,'rttot':rttot,'p':p,'angle':np.rad2deg(th)} if inflow else {'type':'outsup'}
    cases['insup-angle/outsup']=bl
    for cname,bl in cases.items():
        for flux in ['centered','hlle']:
            for rn,r in [('o1',xnum.extrapol2d1()),('k1/3',xnum.extrapol2dk(1/3.)),('k-1',xnum.extrapol2dk(-1.))]:
                d=md.fvm2d(e2,m2,r,bl,numflux=flux); fd=d.fdata_fromprim([np.full(n,rho),np.tile(V[:,None],(1,n)),np.full(n,p)])
                res=d.rhs(fd)
                sc=[np.abs(x).max() for x in d.flux]; 
                for i in range(3): upd((cname,flux,rn,i), np.abs(res[i]).max()/(sc[i]/min(m2.dx(),m2.dy())+1e-300))
for k,v in sorted(worst.items(), key=lambda kv:-kv[1])[:8]: print(k,v)
# C11 2D face-state stencil & C20 orientation cross-check
m2=mesh2d.mesh2d(4,3,2.,1.5); n=12
class F: 
    def __init__(s,data): s.data=data
    def zero_datalist(s,newdim=None): return field.fdata.zero_datalist(s,newdim)
fd=field.fdata(e2,m2,[np.arange(n)+1., np.zeros((2,n)), np.ones(n)])
L,R=xnum.extrapol2d1().interp_face(m2,fd.data,fd,3)
for tag in m2.list_of_bctags():
    idx=m2.index_of_bc(tag); print(tag, m2.bcface_orientation(tag), 'L filled', (L[0][idx]!=0).all(), 'R filled', (R[0][idx]!=0).all(), 'cells', (R[0][idx] if m2.bcface_orientation(tag)=='inward' else L[0][idx]).astype(int)-1)
