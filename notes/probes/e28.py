from lib import *
from riem import exact_riemann
warnings.simplefilter('ignore')
rng=np.random.default_rng(22)
mod=euler.euler1d()
import time; t0=time.time()
ratios=[]; finals=[]
for it in range(12):
    WL=(10**rng.uniform(-.5,.5), rng.uniform(-.6,.6), 10**rng.uniform(-.5,.5)); WR=(10**rng.uniform(-.5,.5), rng.uniform(-.6,.6), 10**rng.uniform(-.5,.5))
    cmax=max(abs(WL[1])+np.sqrt(1.4*WL[2]/WL[0]), abs(WR[1])+np.sqrt(1.4*WR[2]/WR[0]))
    T=0.35/ (cmax*1.6)   # waves stay within [-.5,.5] roughly
    for flux in ['hlle','hllc']:
        for rn,integ,cfl in [('extrapol1',tn.explicit,.5),('muscl(minmod)',tn.rk2_heun,.5),('muscl(vanleer)',tn.rk3ssp,.5),('muscl(superbee)',tn.rk3ssp,.4)]:
            errs=[]
            for nc in (50,100,200,400):
                m=mesh.unimesh(ncell=nc,length=1.,x0=-.5)
                xc=m.centers()
                prim=[np.where(xc<0,WL[k],WR[k]) for k in range(3)]
                bL={'type':'dirichlet','prim':list(WL)}; bR={'type':'dirichlet','prim':list(WR)}
                d=md.fvm(mod,m,recons()[rn],numflux=flux,bcL=bL,bcR=bR)
                r=integ(m,d).solve(d.fdata_fromprim(prim),cfl,[T])[-1]
                ex=exact_riemann(WL,WR,1.4,xc/T)
                pr=mod.cons2prim(r.data)
                e=sum(np.mean(np.abs(pr[k]-ex[k]))/max(abs(WL[k]-WR[k]),0.1*(abs(WL[k])+abs(WR[k])),1e-3) for k in range(3))
                errs.append(e)
            rr=[errs[i+1]/errs[i] for i in range(3)]
            ratios.append((max(rr),flux,rn,it)); finals.append((errs[-1],flux,rn,it))
print('time',time.time()-t0)
print('worst ratios', sorted(ratios)[-6:])
print('worst finals', sorted(finals)[-6:])
print('best ratios', sorted(ratios)[:3])
