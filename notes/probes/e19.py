from lib import *
import itertools
class RecDisc:
    def __init__(self, fn): self.fn=fn; self.calls=[]
    def rhs(self, f):
        k=len(self.calls); self.calls.append((f.time, [d.copy() for d in f.data]))
        return self.fn(k, f)
class M: neq=1; shape=[1]
class Me:
    def __init__(s,n): s.ncell=n
def tableau(cls, smax=8):
    d=RecDisc(lambda k,f: [np.eye(smax)[k].copy()])
    s=cls(None,d)
    f=field.fdata(M(),Me(smax),[np.zeros(smax)],t=0.)
    s.step(f,1.0)
    ns=len(d.calls)
    A=np.array([c[1][0][:ns] for c in d.calls]); b=f.data[0][:ns]; ct=np.array([c[0] for c in d.calls])
    return A,b,ct,f.time
def order_conds(A,b):
    c=A.sum(1); e=np.ones(len(b))
    conds={1:[(b@e,1)],2:[(b@c,1/2)],3:[(b@c**2,1/3),(b@A@c,1/6)],4:[(b@c**3,1/4),(b@(c*(A@c)),1/8),(b@A@c**2,1/12),(b@A@A@c,1/24)]}
    o=0
    for p in (1,2,3,4):
        if all(abs(x-y)<1e-12 for x,y in conds[p]): o=p
        else: break
    return o
for cls in tn.List_Explicit_Integrators+[tn.lsrk4]:
    A,b,ct,t1=tableau(cls)
    # stability polynomial coefficients: b A^k e
    e=np.ones(len(b)); gam=[1.]+[b@np.linalg.matrix_power(A,k)@e for k in range(len(b))]
    # SSP r=1 check: K=[[A,0],[b,0]]
    n=len(b); K=np.zeros((n+1,n+1)); K[:n,:n]=A; K[n,:n]=b
    P=K@np.linalg.inv(np.eye(n+1)+K); ssp1 = P.min()>=-1e-14 and (P@np.ones(n+1)).max()<=1+1e-14
    print(cls.__name__, 'stages',len(b),'order',order_conds(A,b),'sum b',b.sum(),'c ok',np.allclose(ct,A.sum(1),atol=1e-15),'t1',t1,'ssp1',ssp1)
    print('    gamma', np.array(gam))
A,b,ct,t1=tableau(tn.lsrk25bb); print(ct, A.sum(1))
A,b,ct,t1=tableau(tn.rk3ssp); print(A,b,ct)
