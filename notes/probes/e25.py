from lib import *
warnings.simplefilter('ignore')
import functools
rng=np.random.default_rng(20)
orig=tn.implicitmodel.calc_jacobian
def cj(self, field, epsdiff=1.0): return orig(self, field, epsdiff)
tn.implicitmodel.calc_jacobian=cj
worst={}
def upd(k,v): worst[k]=max(worst.get(k,0), v if np.isfinite(v) else 9e9)
def mirror_mesh(m):
    xf=-m.xf[::-1].copy(); return mesh.morphedmesh(ncell=m.ncell,length=m.length,morph=lambda x: xf.copy())
for it in range(40):
    m=rand_mesh(rng,nc=int(rng.integers(4,12))); nc=m.ncell; mm=mirror_mesh(m)
    e=euler.euler1d(); xc=(m.xc-m.xf[0])/m.length
    P=[1+.3*np.sin(2*np.pi*xc+1),.4+.2*np.cos(2*np.pi*xc+2),1+.2*np.sin(4*np.pi*xc+.5)]
    Pm=[P[0][::-1].copy(),-P[1][::-1],P[2][::-1].copy()]
    for flux in ['hllc','hlle','centered']:
      for rn in ['extrapol1','extrapol3','muscl(vanleer)']:
        d=md.fvm(e,m,recons()[rn],numflux=flux); dm=md.fvm(e,mm,recons()[rn],numflux=flux)
        for cls in tn.List_Implicit_Integrators+[tn.rk3ssp]:
            for cfl in (.5,5.):
                if cls is tn.rk3ssp and cfl>1: continue
                try:
                    r=cls(m,d).solve(d.fdata_fromprim(P),cfl,stop={'maxit':5})[-1]; rm=cls(mm,dm).solve(dm.fdata_fromprim(Pm),cfl,stop={'maxit':5})[-1]
                except Exception as ex:
                    upd((cls.__name__,cfl,'EXC',flux,rn),1); continue
                err=max(np.abs(r.data[0][::-1]-rm.data[0]).max(),np.abs(-r.data[1][::-1]-rm.data[1]).max(),np.abs(r.data[2][::-1]-rm.data[2]).max())
                upd((cls.__name__,cfl,'mirror'),err)
                vol=m.vol(); f0=d.fdata_fromprim(P)
                upd((cls.__name__,cfl,'cons'), max(abs(np.sum(vol*(r.data[i]-f0.data[i])))/np.sum(vol*np.abs(f0.data[i])) for i in range(3)))
for k in sorted(worst): print(k,worst[k])
