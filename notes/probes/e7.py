# C13 reflection symmetry of rhs
from lib import *
warnings.simplefilter('ignore')
rng = np.random.default_rng(4)
worst={}
def mirror_mesh(m):
    xf = -m.xf[::-1].copy()
    return mesh.morphedmesh(ncell=m.ncell, length=m.length, morph=lambda x: xf.copy())
def models():
    return [('conv', lambda s: conv.model(1.3*s), None), ('burgers', lambda s: burgers.model(), None)] + \
      [('sw/'+f, lambda s: shw.shallowwater1d(), f) for f in ['centered','rusanov','hll']] + \
      [('euler/'+f, lambda s: euler.euler1d(), f) for f in ['centered','centeredmassflow','hlle','hllc']]
def bcs_for(name, rng):
    if name.startswith('euler'):
        opts = [('per',), ('sym','sym'), ('dirichlet','dirichlet'), ('insub','outsub'), ('insub_cbc','outsub_qtot'), ('insup','outsup'), ('insub','outsub_nrcbc'), ('insub','outsub_rh'), ('outsub','insub'), ('outsup','insup')]
    elif name.startswith('sw'):
        opts = [('per',), ('sym','sym'), ('inf','inf'), ('dirichlet','sym')]
    else: opts = [('per',), ('dirichlet','dirichlet')]
    return opts
def mkbc(t, mod, neq, rng):
    b={'type':t}
    if t=='dirichlet':
        b['prim'] = [float(rng.uniform(.5,2))] if neq==1 else ([float(rng.uniform(.5,2)), float(rng.uniform(-1,1))] if neq==2 else [float(rng.uniform(.5,2)), float(rng.uniform(-1,1)), float(rng.uniform(.5,2))])
    if t.startswith('insu'): b.update(ptot=float(rng.uniform(2.5,4)), rttot=float(rng.uniform(.8,1.5)), p=float(rng.uniform(.5,1.5)))
    if t.startswith('outsu'): b.update(p=float(rng.uniform(.5,1.5)))
    return b
def mirbc(b, neq, scalar_odd):
    b=dict(b)
    if 'prim' in b:
        p=list(b['prim'])
        if neq==1:
            if scalar_odd: p[0]=-p[0]
        else: p[1]=-p[1]
        b['prim']=p
    return b
for it in range(150):
    m = rand_mesh(rng); nc=m.ncell; mm = mirror_mesh(m)
    for name, mk, flux in models():
        mod, modm = mk(1), mk(-1)
        neq=mod.neq
        for rn in recons():
            for bt in bcs_for(name, rng):
                if bt==('per',): bL=bR={'type':'per'}
                else: bL, bR = mkbc(bt[0],mod,neq,rng), mkbc(bt[1],mod,neq,rng)
                if neq==1: q=[rng.uniform(0.2,2,nc)] ; 
                elif neq==2: q=mod.prim2cons([rng.uniform(1,1.5,nc), rng.uniform(-.5,.5,nc)])
                else: q=mod.prim2cons([rng.uniform(1,1.5,nc), rng.uniform(-.5,.5,nc), rng.uniform(1,1.5,nc)])
                if name=='burgers' and rng.random()<.5: q=[rng.uniform(-2,2,nc)]
                odd = (name=='burgers')
                if neq==1: qm=[(-q[0] if odd else q[0])[::-1].copy()]
                else: qm=[x[::-1].copy() for x in q]; qm[1]=-qm[1]
                kw = dict(numflux=flux) if flux else {}
                d = md.fvm(mod, m, recons()[rn], bcL=bL, bcR=bR, **kw)
                dm = md.fvm(modm, mm, recons()[rn], bcL=mirbc(bR,neq,odd), bcR=mirbc(bL,neq,odd), **kw)
                r1=[x.copy() for x in d.rhs(field.fdata(mod,m,q))]
                r2=dm.rhs(field.fdata(modm,mm,qm))
                for i in range(neq):
                    sgn = -1 if ((neq==1 and odd) or (neq>1 and i==1)) else 1
                    err=np.abs(sgn*r1[i][::-1]-r2[i]).max()/(np.abs(d.flux[i]).max()/m.vol().min()+1e-300)
                    key=(name,rn,bt); worst[key]=max(worst.get(key,0), err if np.isfinite(err) else 9e9)
for k,v in sorted(worst.items(), key=lambda kv:-kv[1])[:25]: print(k,v)
print(len(worst))
print('--- finite only')
for k,v in sorted([(k,v) for k,v in worst.items() if v<1e9], key=lambda kv:-kv[1])[:25]: print(k,v)
e=euler.euler1d()
for dirn in (-1,1):
    print(e.namedBC('insub_cbc', dirn, [np.array([1.2]),np.array([0.3*-dirn]),np.array([1.1])], {'ptot':3.,'rttot':1.2}))
    print(e.namedBC('outsub_qtot', dirn, [np.array([1.2]),np.array([0.3*dirn]),np.array([1.1])], {'p':1.}))
print('--- finite non rusanov')
for k,v in sorted([(k,v) for k,v in worst.items() if v<1e9 and 'rusanov' not in k[0]], key=lambda kv:-kv[1])[:10]: print(k,v)
