# C14 translation invariance of rhs, 1D and 2D
from lib import *
warnings.simplefilter('ignore')
rng = np.random.default_rng(3)
worst={}
def models():
    return [('conv+', conv.model(1.3), None), ('conv-', conv.model(-0.7), None), ('burgers', burgers.model(), None)] + \
      [('sw/'+f, shw.shallowwater1d(), f) for f in ['centered','rusanov','hll']] + \
      [('euler/'+f, euler.euler1d(), f) for f in ['centered','centeredmassflow','hlle','hllc']]
for it in range(200):
    nc = int(rng.integers(2, 12))
    m = mesh.unimesh(ncell=nc, length=float(rng.uniform(.5,4)), x0=float(rng.uniform(-1,1)))
    k = int(rng.integers(1, nc))
    for name, mod, flux in models():
        for rn, r in recons().items():
            if mod.neq==1: q=[rng.uniform(-2,2,nc)]
            elif mod.neq==2: q=mod.prim2cons([rng.uniform(0.5,2,nc), rng.uniform(-1,1,nc)])
            else: q=mod.prim2cons([rng.uniform(0.5,2,nc), rng.uniform(-1,1,nc), rng.uniform(0.5,2,nc)])
            d = md.fvm(mod, m, r, numflux=flux) if flux else md.fvm(mod, m, r)
            r1 = [x.copy() for x in d.rhs(field.fdata(mod, m, q))]
            r2 = d.rhs(field.fdata(mod, m, [np.roll(x,k) for x in q]))
            for i in range(mod.neq):
                err = np.abs(np.roll(r1[i],k)-r2[i]).max()/(np.abs(d.flux[i]).max()/m.vol().min())
                key=(name,rn, min(nc,4)); worst[key]=max(worst.get(key,0),err)
print('1D worst:'); 
for k,v in sorted(worst.items(), key=lambda kv:-kv[1])[:12]: print(k,v)
worst={}
e2 = euler.euler2d()
bl={t:{'type':'per'} for t in ['left','right','top','bottom']}
for it in range(300):
    nx, ny = int(rng.integers(1,6)), int(rng.integers(1,6))
    m2 = mesh2d.mesh2d(nx, ny, float(rng.uniform(.5,3)), float(rng.uniform(.5,3))); n=nx*ny
    kx, ky = int(rng.integers(0,nx)), int(rng.integers(0,ny))
    for flux in ['centered','hlle']:
        for rn, r in [('o1', xnum.extrapol2d1()), ('k1/3', xnum.extrapol2dk(1./3.)), ('k-1', xnum.extrapol2dk(-1.)), ('k1', xnum.extrapol2dk(1.))]:
            d = md.fvm2d(e2, m2, r, bl, numflux=flux)
            p = [rng.uniform(.5,2,n), rng.uniform(-1,1,(2,n)), rng.uniform(.5,2,n)]
            def sh(a):
                if a.ndim==1: return np.roll(a.reshape(ny,nx),(ky,kx),axis=(0,1)).reshape(-1)
                return np.stack([sh(a[0]),sh(a[1])])
            r1=[x.copy() for x in d.rhs(d.fdata_fromprim(p))]
            r2=d.rhs(d.fdata_fromprim([sh(x) for x in p]))
            for i in range(3):
                err=np.abs(sh(r1[i])-r2[i]).max()/(np.abs(r1[i]).max()+1e-300)
                key=(flux,rn,min(nx,3),min(ny,3)); worst[key]=max(worst.get(key,0),err)
print('2D worst:')
for k,v in sorted(worst.items(), key=lambda kv:-kv[1])[:12]: print(k,v)
