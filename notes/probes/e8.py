# C15 2D vs 1D, transpose, reflection
from lib import *
warnings.simplefilter('ignore')
rng = np.random.default_rng(5)
e1, e2 = euler.euler1d(), euler.euler2d()
worst={}
def upd(k,v): worst[k]=max(worst.get(k,0), v if np.isfinite(v) else 9e9)
R2 = lambda: [('o1', xnum.extrapol2d1(), xnum.extrapol1()), ('k1/3', xnum.extrapol2dk(1/3.), xnum.extrapol3()), ('k-1', xnum.extrapol2dk(-1.), xnum.extrapol2()), ('k.5', xnum.extrapol2dk(.5), xnum.quick())]
def mkbc(t,rng):
    b={'type':t}
    if t.startswith('insu'): b.update(ptot=float(rng.uniform(2.5,4)), rttot=float(rng.uniform(.8,1.5)), p=float(rng.uniform(.5,1.5)))
    if t.startswith('outsu'): b.update(p=float(rng.uniform(.5,1.5)))
    return b
pairs=[('per','per'),('sym','sym'),('insub','outsub'),('insup','outsup'),('outsub','insub'),('outsup','insup'),('sym','outsub')]
for it in range(200):
    nx, ny = int(rng.integers(1,7)), int(rng.integers(1,5))
    lx, ly = float(rng.uniform(.5,3)), float(rng.uniform(.5,3))
    m2 = mesh2d.mesh2d(nx,ny,lx,ly); m2t = mesh2d.mesh2d(ny,nx,ly,lx); m1 = mesh.unimesh(ncell=nx, length=lx)
    n=nx*ny
    for flux in ['centered','hlle']:
        for rn, r2, r1 in R2():
            for bp in pairs:
                for tp in [('per','per'),('sym','sym')]:
                    bL,bR = mkbc(bp[0],rng), mkbc(bp[1],rng)
                    bB,bT = mkbc(tp[0],rng), mkbc(tp[1],rng)
                    bl={'left':bL,'right':bR,'bottom':bB,'top':bT}
                    # (a) x-only variation vs 1D
                    rho, u, p = rng.uniform(1,1.5,nx), rng.uniform(-.5,.5,nx), rng.uniform(1,1.5,nx)
                    v0 = float(rng.uniform(-.5,.5)) if (tp[0]=='per' and not any('insu' in b for b in bp)) else 0.
                    d2 = md.fvm2d(e2, m2, r2, bl, numflux=flux)
                    f2 = d2.fdata_fromprim([np.tile(rho,ny), np.vstack([np.tile(u,ny), np.full(n,v0)]), np.tile(p,ny)])
                    res2=[x.copy() for x in d2.rhs(f2)]
                    d1 = md.fvm(e1, m1, r1, numflux=flux, bcL=bL, bcR=bR)
                    # 1D energy lacks v0^2: compare via primitives: build 1D with same rho,u,p
                    f1 = d1.fdata_fromprim([rho,u,p]); res1=d1.rhs(f1)
                    sc = max(np.abs(x).max() for x in d1.flux)/m1.vol().min()
                    upd(('1Dmass',flux,rn,bp,tp), np.abs(res2[0].reshape(ny,nx)-res1[0]).max()/sc)
                    upd(('1Dmomx',flux,rn,bp,tp), np.abs(res2[1][0].reshape(ny,nx)-res1[1]).max()/sc)
                    # transverse momentum: d(rho v)/dt = v0 * d(rho)/dt
                    upd(('1Dmomy',flux,rn,bp,tp), np.abs(res2[1][1].reshape(ny,nx)-v0*res1[0]).max()/sc)
                    upd(('1Dener',flux,rn,bp,tp), np.abs(res2[2].reshape(ny,nx)-(res1[2]+.5*v0*v0*res1[0])).max()/sc)
                    # (b) transpose with general data
                    P=[rng.uniform(1,1.5,n), rng.uniform(-.5,.5,(2,n)), rng.uniform(1,1.5,n)]
                    def T(a): return a.reshape(ny,nx).T.reshape(-1)
                    Pt=[T(P[0]), np.vstack([T(P[1][1]), T(P[1][0])]), T(P[2])]
                    blt={'bottom':bL,'top':bR,'left':bB,'right':bT}
                    rr=[x.copy() for x in d2.rhs(d2.fdata_fromprim(P))]
                    d2t = md.fvm2d(e2, m2t, r2, blt, numflux=flux)
                    rt=d2t.rhs(d2t.fdata_fromprim(Pt))
                    sc2=max(np.abs(x).max() for x in d2.flux)/min(m2.dx(),m2.dy())
                    upd(('T0',flux,rn,bp,tp), np.abs(T(rr[0])-rt[0]).max()/sc2)
                    upd(('T1',flux,rn,bp,tp), max(np.abs(T(rr[1][0])-rt[1][1]).max(), np.abs(T(rr[1][1])-rt[1][0]).max())/sc2)
                    upd(('T2',flux,rn,bp,tp), np.abs(T(rr[2])-rt[2]).max()/sc2)
                    # (c) reflect in x
                    def Fx(a): return a.reshape(ny,nx)[:,::-1].reshape(-1)
                    Px=[Fx(P[0]), np.vstack([-Fx(P[1][0]), Fx(P[1][1])]), Fx(P[2])]
                    blx={'left':bR,'right':bL,'bottom':bB,'top':bT}
                    d2x=md.fvm2d(e2,m2,r2,blx,numflux=flux); rx=d2x.rhs(d2x.fdata_fromprim(Px))
                    upd(('X',flux,rn,bp,tp), max(np.abs(Fx(rr[0])-rx[0]).max(), np.abs(-Fx(rr[1][0])-rx[1][0]).max(), np.abs(Fx(rr[1][1])-rx[1][1]).max(), np.abs(Fx(rr[2])-rx[2]).max())/sc2)
                    def Fy(a): return a.reshape(ny,nx)[::-1,:].reshape(-1)
                    Py=[Fy(P[0]), np.vstack([Fy(P[1][0]), -Fy(P[1][1])]), Fy(P[2])]
                    bly={'left':bL,'right':bR,'bottom':bT,'top':bB}
                    d2y=md.fvm2d(e2,m2,r2,bly,numflux=flux); ry=d2y.rhs(d2y.fdata_fromprim(Py))
                    upd(('Y',flux,rn,bp,tp), max(np.abs(Fy(rr[0])-ry[0]).max(), np.abs(Fy(rr[1][0])-ry[1][0]).max(), np.abs(-Fy(rr[1][1])-ry[1][1]).max(), np.abs(Fy(rr[2])-ry[2]).max())/sc2)
for k,v in sorted(worst.items(), key=lambda kv:-kv[1]): print(k,v)
print(len(worst))
