from lib import *
warnings.simplefilter('ignore')
rng=np.random.default_rng(19)
worst={}
def upd(k,v): worst[k]=max(worst.get(k,0), v if np.isfinite(v) else 9e9)
# C19 sources: euler1d and shallowwater
for it in range(100):
    m=rand_mesh(rng); nc=m.ncell
    srcs=[(lambda x,q: 0.3*x+q[0]), (lambda x,q: -0.2+0*x), (lambda x,q: q[1]*np.sin(x)), None]
    for fam in ['euler','sw']:
        neq=3 if fam=='euler' else 2
        sl=[srcs[int(rng.integers(0,4))] for _ in range(neq)]
        if all(s is None for s in sl): sl[0]=srcs[0]
        if fam=='euler':
            m0,m1=euler.euler1d(),euler.euler1d(source=sl); q=m0.prim2cons([rng.uniform(1,1.5,nc),rng.uniform(-.5,.5,nc),rng.uniform(1,1.5,nc)]); fl='hllc'
        else:
            m0,m1=shw.shallowwater1d(),shw.shallowwater1d(source=sl); q=m0.prim2cons([rng.uniform(1,1.5,nc),rng.uniform(-.5,.5,nc)]); fl='hll'
        r=recons()[str(rng.choice(list(recons())))]
        d0=md.fvm(m0,m,r,numflux=fl); d1=md.fvm(m1,m,r,numflux=fl)
        r0=[x.copy() for x in d0.rhs(field.fdata(m0,m,q))]; r1=d1.rhs(field.fdata(m1,m,q))
        for i in range(neq):
            exp = sl[i](m.centers(), q) if sl[i] else 0*q[0]
            upd((fam,'src',i), np.abs(r1[i]-r0[i]-exp).max()/(np.abs(r0[i]).max()+np.abs(exp).max()+1e-300))
    # nozzle builtin sources vs euler1d
    a0,a1=rng.uniform(.5,2),rng.uniform(-.2,.2)
    S=lambda x: a0+a1*(x-m.xf[0])   # linear section
    nz=euler.nozzle(sectionlaw=S); e0=euler.euler1d()
    bc={'type':'sym'}
    dn=md.fvm(nz,m,xnum.extrapol1(),numflux='hllc',bcL=bc,bcR=bc); d0=md.fvm(e0,m,xnum.extrapol1(),numflux='hllc',bcL=bc,bcR=bc)
    P=[rng.uniform(1,1.5,nc),rng.uniform(-.5,.5,nc),rng.uniform(1,1.5,nc)]; q=e0.prim2cons(P)
    rn=[x.copy() for x in dn.rhs(field.fdata(nz,m,q))]; r0=d0.rhs(field.fdata(e0,m,q))
    geo=-a1/S(m.xc); rho,u,p=P; H=1.4/.4*p/rho+.5*u*u
    for i,fx in enumerate([rho*u,rho*u*u,rho*u*H]):
        upd(('nozzle',i), np.abs(rn[i]-r0[i]-geo*fx).max()/(np.abs(r0[i]).max()+1e-300))
print(worst)
# C18 timestep via numerical flux jacobian
worst={}
def specrad(fluxfn, Q, neq):
    # central FD Jacobian of f(Q) at one cell
    J=np.zeros((neq,neq))
    for k in range(neq):
        h=1e-6*max(abs(Q[k]),1e-3*max(abs(x) for x in Q))
        Qp=list(Q); Qm=list(Q); Qp[k]+=h; Qm[k]-=h
        J[:,k]=(np.array(fluxfn(Qp))-np.array(fluxfn(Qm)))/(2*h)
    return np.abs(np.linalg.eigvals(J)).max()
for it in range(300):
    g=float(rng.uniform(1.1,1.9)); e=euler.euler1d(gamma=g)
    rho,p=10**rng.uniform(-2,2),10**rng.uniform(-2,2); u=rng.normal()*np.sqrt(g*p/rho)*2
    Q=[float(x[0]) for x in e.prim2cons([np.array([rho]),np.array([u]),np.array([p])])]
    f=lambda Q: [float(x[0]) for x in e.numflux('centered', e.cons2prim([np.array([v]) for v in Q]), e.cons2prim([np.array([v]) for v in Q]))]
    sr=specrad(f,Q,3); dx=10**rng.uniform(-2,1); cfl=rng.uniform(.1,3)
    dt=e.timestep([np.array([v]) for v in Q], np.array([dx]), cfl)[0]
    upd('euler', abs(dt*sr/(cfl*dx)-1))
    s=shw.shallowwater1d(g=float(rng.uniform(1,20))); h=10**rng.uniform(-2,2); u=rng.normal()*np.sqrt(s.g*h)*2
    Q=[h,h*u]
    f=lambda Q: [float(x[0]) for x in s.numflux('centered', s.cons2prim([np.array([v]) for v in Q]), s.cons2prim([np.array([v]) for v in Q]))]
    sr=specrad(f,Q,2); dt=s.timestep([np.array([v]) for v in Q], np.array([dx]), cfl)[0]
    upd('sw', abs(dt*sr/(cfl*dx)-1))
print(worst)
