from lib import *
warnings.simplefilter('ignore')
rng = np.random.default_rng(10)
# C20 meshes
worst={}
def upd(k,v): worst[k]=max(worst.get(k,0), v if np.isfinite(v) else 9e9)
bad=[]
for it in range(3000):
    nc=int(rng.integers(1,60)); L=float(10**rng.uniform(-3,3)); x0=float(rng.normal()*10**rng.uniform(-2,2))
    m=mesh.unimesh(ncell=nc,length=L,x0=x0)
    xf=m.xf
    ok = len(xf)==nc+1 and np.all(np.diff(xf)>0) and xf[0]==x0 and abs(xf[-1]-(x0+L))<=4*np.spacing(abs(x0)+L)
    if not ok: bad.append(('uni',nc,L,x0, xf[0]-x0, xf[-1]-(x0+L)))
    upd('uni-centers', np.abs(m.xc-(xf[1:]+xf[:-1])/2).max()/L)
    upd('uni-volsum', abs(m.vol().sum()-L)/L)
    upd('uni-avg', abs(m.average(np.full(nc,3.3))-3.3))
    # refined
    ratio=float(rng.uniform(.1,10)); na=int(rng.integers(1,5)); nb=int(rng.integers(1,5))
    k=int(rng.integers(1,12)); ncr=k*(na+nb)
    mr=mesh.refinedmesh(ncell=ncr,length=L,ratio=ratio,nratioa=na,nratiob=nb)
    v=mr.vol(); nc1=k*na
    ok = len(mr.xf)==ncr+1 and np.all(v>0) and mr.xf[0]==0. and abs(mr.xf[-1]-L)<=4*np.spacing(L)
    if not ok: bad.append(('ref',ncr,L,ratio,na,nb))
    upd('ref-zone1', np.abs(v[:nc1]/v[0]-1).max()); upd('ref-zone2', np.abs(v[nc1:]/v[-1]-1).max())
    upd('ref-ratio', abs(v[-1]/v[0]/ratio-1))
    # general refined (non whole number): still valid partition?
    ncg=int(rng.integers(1,40)); fa=float(rng.uniform(.1,5))
    mg=mesh.refinedmesh(ncell=ncg,length=L,ratio=ratio,nratioa=fa,nratiob=float(rng.uniform(.1,5)))
    if not (len(mg.xf)==ncg+1 and np.all(np.diff(mg.xf)>0) and abs(mg.xf[-1]-L)<=4*np.spacing(L) and mg.xf[0]==0): bad.append(('refg',ncg,L,ratio,fa, mg.xf[:3], len(mg.xf)))
print(worst); print(len(bad), bad[:5])
# 2D
for it in range(500):
    nx,ny=int(rng.integers(1,9)),int(rng.integers(1,9)); m2=mesh2d.mesh2d(nx,ny,float(rng.uniform(.1,5)),float(rng.uniform(.1,5)))
    assert m2.nbfaces()==(nx+1)*ny+nx*(ny+1)
    idx={t:m2.index_of_bc(t) for t in m2.list_of_bctags()}
    allb=np.concatenate(list(idx.values())); assert len(set(allb))==len(allb)==2*nx+2*ny
    # expected boundary faces
    exp=set([j*(nx+1) for j in range(ny)]+[j*(nx+1)+nx for j in range(ny)]+[ny*(nx+1)+i for i in range(nx)]+[ny*(nx+1)+ny*nx+i for i in range(nx)])
    assert set(allb)==exp
print('2D ok')
