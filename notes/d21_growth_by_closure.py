import sys; sys.path.insert(0,'/repo')
import numpy as np, warnings; warnings.simplefilter("ignore")
import flowdyn.mesh as mesh, flowdyn.modelphy.euler as euler, flowdyn.modeldisc as md, flowdyn.xnum as xnum, flowdyn.integration as integ
g=1.4
rng=np.random.default_rng(1)
def growth(M,iname,cfl,inl="insub",out="outsub",flux="hllc",ncell=12,n=30,rho=1.3,p=0.9,rev=False):
    m=mesh.unimesh(ncell=ncell,length=1.)
    model=euler.model(gamma=g)
    c=np.sqrt(g*p/rho); u=M*c*(-1 if rev else 1)
    pt=p*(1+.5*(g-1)*M*M)**(g/(g-1)); rtt=p/rho*(1+.5*(g-1)*M*M)
    bi={"type":inl,"ptot":pt,"rttot":rtt,"p":p}; bo={"type":out,"p":p,"ptot":pt,"rttot":rtt}
    disc=md.fvm(model,m,xnum.extrapol1(),numflux=flux,bcL=bo if rev else bi,bcR=bi if rev else bo)
    f=disc.fdata_fromprim([rho,u,p])
    f2=f.copy()
    for d in f2.data: d*= (1+1e-10*rng.standard_normal(d.shape))
    s=getattr(integ,iname)(m,disc)
    with np.errstate(all="ignore"):
        r=s.solve(f,cfl,stop={"maxit":n})[-1]
        s2=getattr(integ,iname)(m,disc)
        r2=s2.solve(f2,cfl,stop={"maxit":n})[-1]
    qs=[rho,rho*(abs(u)+c),rho*(abs(u)+c)**2]
    A=max(np.max(np.abs(a-b))/q for a,b,q in zip(r.data,r2.data,qs))/1e-10
    return A
for inl in ("insub","insub_cbc","insup"):
  for out in ("outsub","outsub_qtot","outsub_nrcbc"):
    if inl=="insup" and out!="outsub": continue
    for iname,cfl in (("rk3ssp",0.8),("forwardeuler",0.4),("implicit",3.0),("crancknicolson",3.0) if hasattr(integ,"crancknicolson") else ("trapezoidal",3.0)):
        print(inl,out,iname,cfl," ".join("M=%g:A=%.1e"%(M,growth(M,iname,cfl,inl,out)) for M in (0.3,0.1,0.05,0.02,1e-3)),flush=True)
