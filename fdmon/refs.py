"""Independent reference formulas (textbook physics; nothing here is copied from flowdyn)."""
import numpy as np


# ----------------------------------------------------------------------------- physical fluxes (primitive input)
def flux_euler(rho, u, p, gam):
    H = gam / (gam - 1.0) * p / rho + 0.5 * u * u
    return [rho * u, rho * u * u + p, rho * u * H]


def flux_euler2d(rho, V, p, gam, nrm):
    """nrm (2, n) unit normals; V (2, n)"""
    un = V[0] * nrm[0] + V[1] * nrm[1]
    H = gam / (gam - 1.0) * p / rho + 0.5 * (V[0] ** 2 + V[1] ** 2)
    return [rho * un, np.vstack([rho * un * V[0] + p * nrm[0], rho * un * V[1] + p * nrm[1]]), rho * un * H]


def flux_sw(h, u, g):
    return [h * u, h * u * u + 0.5 * g * h * h]


def roe_euler(rhoL, uL, pL, rhoR, uR, pR, gam):
    """Roe-averaged velocity and sound speed (1D)"""
    wl, wr = np.sqrt(rhoL), np.sqrt(rhoR)
    HL = gam / (gam - 1) * pL / rhoL + 0.5 * uL ** 2
    HR = gam / (gam - 1) * pR / rhoR + 0.5 * uR ** 2
    ur = (wl * uL + wr * uR) / (wl + wr)
    Hr = (wl * HL + wr * HR) / (wl + wr)
    c2 = (gam - 1) * (Hr - 0.5 * ur ** 2)
    return ur, np.sqrt(np.maximum(c2, 0.0))


def roe_sw(hL, uL, hR, uR, g):
    wl, wr = np.sqrt(hL), np.sqrt(hR)
    return (wl * uL + wr * uR) / (wl + wr), np.sqrt(g * 0.5 * (hL + hR))


# ----------------------------------------------------------------------------- ideal gas
def sound(rho, p, gam):
    return np.sqrt(gam * p / rho)


def totals(rho, u, p, gam):
    m2 = u * u / (gam * p / rho)
    f = 1.0 + 0.5 * (gam - 1.0) * m2
    return p * f ** (gam / (gam - 1.0)), p / rho * f      # ptot, r*Ttot


def entropy(rho, p, gam):
    return np.log(p / rho ** gam) / (gam - 1.0)


# ----------------------------------------------------------------------------- exact Riemann solver (Toro, ch. 4)
def exact_riemann(WL, WR, g, xi):
    """WL, WR = (rho, u, p); xi = x/t array. returns rho, u, p arrays and (p*, u*)"""
    rl, ul, pl = WL
    rr, ur, pr = WR
    cl, cr = np.sqrt(g * pl / rl), np.sqrt(g * pr / rr)
    g1, g2, g3, g4 = (g - 1) / (2 * g), (g + 1) / (2 * g), 2 * g / (g - 1), 2 / (g - 1)
    g5, g6, g7 = 2 / (g + 1), (g - 1) / (g + 1), (g - 1) / 2
    if not g4 * (cl + cr) > ur - ul:
        raise ValueError("vacuum")

    def fK(p, rk, pk, ck):
        if p > pk:
            A, B = g5 / rk, g6 * pk
            q = np.sqrt(A / (p + B))
            return (p - pk) * q, (1 - 0.5 * (p - pk) / (B + p)) * q
        pr_ = p / pk
        return g4 * ck * (pr_ ** g1 - 1), (1 / (rk * ck)) * pr_ ** (-g2)

    p = ((cl + cr - g7 * (ur - ul)) / (cl / pl ** g1 + cr / pr ** g1)) ** g3
    for _ in range(500):
        fl, dl = fK(p, rl, pl, cl)
        fr, dr = fK(p, rr, pr, cr)
        pn = p - (fl + fr + ur - ul) / (dl + dr)
        if pn <= 0:
            pn = 0.1 * p
        if abs(pn - p) / (0.5 * (pn + p)) < 1e-14:
            p = pn
            break
        p = pn
    fl, _ = fK(p, rl, pl, cl)
    fr, _ = fK(p, rr, pr, cr)
    us, ps = 0.5 * (ul + ur + fr - fl), p
    xi = np.asarray(xi, dtype=float)
    rho, u, pp = np.empty_like(xi), np.empty_like(xi), np.empty_like(xi)
    for i, s in enumerate(xi):
        if s <= us:
            if ps <= pl:
                if s <= ul - cl:
                    W = (rl, ul, pl)
                else:
                    cml = cl * (ps / pl) ** g1
                    if s > us - cml:
                        W = (rl * (ps / pl) ** (1 / g), us, ps)
                    else:
                        c = g5 * (cl + g7 * (ul - s))
                        W = (rl * (c / cl) ** g4, g5 * (cl + g7 * ul + s), pl * (c / cl) ** g3)
            else:
                pml = ps / pl
                sl = ul - cl * np.sqrt(g2 * pml + g1)
                W = (rl, ul, pl) if s <= sl else (rl * (pml + g6) / (pml * g6 + 1), us, ps)
        else:
            if ps > pr:
                pmr = ps / pr
                sr = ur + cr * np.sqrt(g2 * pmr + g1)
                W = (rr, ur, pr) if s >= sr else (rr * (pmr + g6) / (pmr * g6 + 1), us, ps)
            else:
                if s >= ur + cr:
                    W = (rr, ur, pr)
                else:
                    cmr = cr * (ps / pr) ** g1
                    if s <= us + cmr:
                        W = (rr * (ps / pr) ** (1 / g), us, ps)
                    else:
                        c = g5 * (cr - g7 * (ur - s))
                        W = (rr * (c / cr) ** g4, g5 * (-cr + g7 * ur + s), pr * (c / cr) ** g3)
        rho[i], u[i], pp[i] = W
    return rho, u, pp, (ps, us)


def riemann_speeds(WL, WR, g):
    """fastest left and right wave speeds of the exact solution (for choosing a final time)"""
    rl, ul, pl = WL
    rr, ur, pr = WR
    cl, cr = np.sqrt(g * pl / rl), np.sqrt(g * pr / rr)
    _, _, _, (ps, us) = exact_riemann(WL, WR, g, [0.0])
    g1, g2 = (g - 1) / (2 * g), (g + 1) / (2 * g)
    sl = ul - cl * (np.sqrt(g2 * ps / pl + g1) if ps > pl else 1.0)
    sr = ur + cr * (np.sqrt(g2 * ps / pr + g1) if ps > pr else 1.0)
    return sl, sr


# ----------------------------------------------------------------------------- quasi-1D nozzle (area-Mach, normal shock)
def area_mach(M, g):
    return (1.0 / M) * ((2.0 / (g + 1)) * (1 + 0.5 * (g - 1) * M * M)) ** ((g + 1) / (2 * (g - 1)))


def mach_from_area(ar, g, supersonic):
    """invert A/A* = ar >= 1 by bisection"""
    ar = np.atleast_1d(np.asarray(ar, float))
    out = np.empty_like(ar)
    for i, a in enumerate(ar):
        if a <= 1.0 + 1e-15:
            out[i] = 1.0
            continue
        lo, hi = (1.0, 50.0) if supersonic else (1e-9, 1.0)
        for _ in range(200):
            mid = 0.5 * (lo + hi)
            v = area_mach(mid, g)
            if (v > a) == (not supersonic):
                lo = mid
            else:
                hi = mid
        out[i] = 0.5 * (lo + hi)
    return out


def ptot_ratio_shock(M1, g):
    """total pressure ratio across a normal shock"""
    a = ((g + 1) * M1 ** 2 / ((g - 1) * M1 ** 2 + 2)) ** (g / (g - 1))
    b = ((g + 1) / (2 * g * M1 ** 2 - (g - 1))) ** (1 / (g - 1))
    return a * b


def mach_behind_shock(M1, g):
    return np.sqrt((1 + 0.5 * (g - 1) * M1 ** 2) / (g * M1 ** 2 - 0.5 * (g - 1)))


def pi_ps(M, g):
    return (1 + 0.5 * (g - 1) * M * M) ** (g / (g - 1))
