"""C15 2D Cartesian solver vs 1D solver, transposition and reflections (metamorphic twins through the real fvm2d.rhs)."""
import numpy as np

import flowdyn.mesh as fmesh
import flowdyn.mesh2d as fmesh2d
import flowdyn.modeldisc as md
import flowdyn.xnum as xnum
import flowdyn.field as ffield
import flowdyn.modelphy.euler as euler

from .. import core, gen, probes, refs
from ..core import group

TAGS = ("left", "right", "bottom", "top")
KS = [None, -1.0, 0.0, 1.0 / 3.0, 0.5, 1.0]
TOL = 1e-11       # measured worst ~3e-15


def setup(ctx):
    ctx.require("2d-vs-1d:x", "2d-vs-1d:y", "transpose", "reflect-x", "reflect-y")


class Spec2D:
    def __init__(self, nx, ny, lx, ly, gam, k, flux, bcl, prim):
        self.nx, self.ny, self.lx, self.ly, self.gam, self.k, self.flux = nx, ny, lx, ly, gam, k, flux
        self.bcl = {t: dict(d) for t, d in bcl.items()}
        self.prim = [np.array(p, float) for p in prim]

    def build(self, model=None):
        m = fmesh2d.mesh2d(self.nx, self.ny, self.lx, self.ly)
        model = model or euler.euler2d(gamma=self.gam)
        if (self.nx + 2 * self.ny) % 3 == 0:        # deterministic decoys (no rng here): other models built after the one under test
            euler.euler2d(gamma=1.23); euler.euler1d(gamma=1.77)
        num = xnum.extrapol2d1() if self.k is None else xnum.extrapol2dk(self.k)
        dcls = md.fvm2d if (self.nx + self.ny) % 2 else md.fvm2dcart          # alias and base class
        disc = dcls(model, m, num, bclist=self.bcl, numflux=self.flux)
        f = ffield.fdata(model, m, model.prim2cons(self.prim))
        # deterministic (no rng here): a sixth of the problems hand the operator arrays with another memory layout
        gen.exotic_layout(f, {0: 1, 1: 2, 2: 3}.get((3 * self.nx + self.ny) % 18, 0))
        return m, model, disc, f

    def rhs(self, model=None):
        m, model, disc, f = self.build(model)
        return [np.array(r, copy=True) for r in disc.rhs(f)]

    def grid(self, a):
        a = np.asarray(a)
        return a.reshape(a.shape[:-1] + (self.ny, self.nx))

    def desc(self):
        return {"nx": self.nx, "ny": self.ny, "lx": self.lx, "ly": self.ly, "gamma": self.gam, "recon": "extrapol2d1" if self.k is None else "extrapol2dk(%g)" % self.k,
                "flux": self.flux, "bc": {t: {kk: vv for kk, vv in d.items()} for t, d in self.bcl.items()}, "prim": self.prim}


def _bc_side(rng, tag, nfaces, rho, p, gam, allow):
    ty = str(rng.choice(allow))
    d = {"type": ty}
    c = np.sqrt(gam * p / rho)
    if ty in ("insub", "insup"):
        pt, rtt = refs.totals(rho, (0.5 if ty == "insub" else 1.7) * c, p, gam)
        d.update(ptot=float(pt), rttot=float(rtt))
        if ty == "insup":
            d["p"] = float(p)
            if rng.random() < 0.6:
                # axis-aligned directions (0 is a falsy value, -0.0 too; int and float spellings) as often as oblique ones
                d["angle"] = float(np.round(rng.uniform(-180, 180), 1)) if rng.random() < 0.5 else [0.0, 0, -0.0, 90.0, 90, 180.0, -90.0, -180.0, 270.0, 360.0][int(rng.integers(10))]
    if ty == "outsub":
        d["p"] = float(p * rng.uniform(0.8, 1.2))
    if ty == "dirichlet":
        d["prim"] = [rho * rng.uniform(0.8, 1.2, nfaces), rng.uniform(-0.5, 0.5, (2, nfaces)) * c, p * rng.uniform(0.8, 1.2, nfaces)]
    return d


def random_spec(rng, nmax=6):
    nx, ny = int(rng.integers(1, nmax + 1)), int(rng.integers(1, nmax + 1))
    lx, ly = float(np.round(rng.uniform(0.5, 4), 3)), float(np.round(rng.uniform(0.5, 4), 3))
    gam = float(rng.choice([1.4, 5 / 3, 1.2]))
    n = nx * ny
    rho0, p0 = float(10 ** rng.uniform(-1, 1)), float(10 ** rng.uniform(-1, 1))
    rho = rho0 * rng.uniform(0.6, 1.6, n); p = p0 * rng.uniform(0.6, 1.6, n)
    if rng.random() < 0.2:
        # steep admissible data (neighbours 10...250 times apart): the unlimited extrapolations overshoot through zero at some faces --
        # the symmetries are identities of the arithmetic, they hold there too (non-finite residuals: same pattern in the twin)
        rho = rho0 * 10 ** rng.uniform(-1.2, 1.2, n); p = p0 * 10 ** rng.uniform(-1.2, 1.2, n)
    V = rng.uniform(-1.5, 1.5, (2, n)) * np.sqrt(gam * p0 / rho0)
    bcl = {}
    for pair in (("left", "right"), ("bottom", "top")):
        if rng.random() < 0.35:
            for t in pair:
                bcl[t] = {"type": "per"}
        else:
            for t in pair:
                bcl[t] = _bc_side(rng, t, ny if t in ("left", "right") else nx, rho0, p0, gam, ["sym", "insub", "insup", "outsub", "outsup", "dirichlet"])
    return Spec2D(nx, ny, lx, ly, gam, KS[int(rng.integers(len(KS)))], str(rng.choice(["centered", "hlle"])), bcl, [rho, V, p])


# ------------------------------------------------------------------------------------------ transformations
def _swapV(V):
    return np.vstack([V[1:2], V[0:1]])


def transpose(s):
    T = {"left": "bottom", "right": "top", "bottom": "left", "top": "right"}
    bcl = {}
    for t, d in s.bcl.items():
        d = dict(d)
        if "angle" in d:
            d["angle"] = 90.0 - d["angle"]
        if d["type"] == "dirichlet":
            d["prim"] = [d["prim"][0].copy(), _swapV(d["prim"][1]), d["prim"][2].copy()]
        bcl[T[t]] = d
    tr = lambda a: np.swapaxes(s.grid(a), -1, -2).reshape(np.asarray(a).shape)
    return Spec2D(s.ny, s.nx, s.ly, s.lx, s.gam, s.k, s.flux, bcl, [tr(s.prim[0]), _swapV(tr(s.prim[1])), tr(s.prim[2])])


def untranspose(s, res):
    """map the residual of transpose(s) back to the layout of s"""
    t = Spec2D(s.ny, s.nx, s.ly, s.lx, s.gam, s.k, s.flux, {}, s.prim)
    tr = lambda a: np.swapaxes(t.grid(a), -1, -2).reshape(np.asarray(a).shape)
    return [tr(res[0]), _swapV(tr(res[1])), tr(res[2])]


def reflect(s, axis):
    """axis 0: x -> -x ; axis 1: y -> -y"""
    T = {"left": "right", "right": "left"} if axis == 0 else {"bottom": "top", "top": "bottom"}
    sg = np.array([[-1.0], [1.0]]) if axis == 0 else np.array([[1.0], [-1.0]])
    bcl = {}
    for t, d in s.bcl.items():
        d = dict(d)
        if "angle" in d:
            d["angle"] = (180.0 - d["angle"]) if axis == 0 else -d["angle"]
        if d["type"] == "dirichlet":
            pr = [x.copy() for x in d["prim"]]
            pr[1] = pr[1] * sg
            # faces of left/right are ordered by j, of bottom/top by i: reversed when reflecting along their own direction
            rev = (axis == 1 and t in ("left", "right")) or (axis == 0 and t in ("bottom", "top"))
            if rev:
                pr = [x[..., ::-1].copy() for x in pr]
            d["prim"] = pr
        bcl[T.get(t, t)] = d
    fl = lambda a: np.flip(s.grid(a), axis=-1 if axis == 0 else -2).reshape(np.asarray(a).shape)
    return Spec2D(s.nx, s.ny, s.lx, s.ly, s.gam, s.k, s.flux, bcl, [fl(s.prim[0]), fl(s.prim[1]) * sg, fl(s.prim[2])])


def unreflect(s, res, axis):
    sg = np.array([[-1.0], [1.0]]) if axis == 0 else np.array([[1.0], [-1.0]])
    fl = lambda a: np.flip(s.grid(a), axis=-1 if axis == 0 else -2).reshape(np.asarray(a).shape)
    return [fl(res[0]), fl(res[1]) * sg, fl(res[2])]


def _scales(s):
    rho, V, p = s.prim
    sp = np.max(np.sqrt(V[0] ** 2 + V[1] ** 2) + np.sqrt(s.gam * p / rho))
    r = np.max(rho)
    d = min(s.lx / s.nx, s.ly / s.ny)
    return [r * sp / d, r * sp ** 2 / d, r * sp ** 3 / d]


def _compare(ctx, cls, key, s, r1, r2):
    if not all(np.all(np.isfinite(x)) for x in r1 + r2):
        ctx.true(cls, all(np.array_equal(np.isfinite(a), np.isfinite(b)) for a, b in zip(r1, r2)), key + "/finite-pattern-differs", None, cls=cls)
        return
    sc = _scales(s)
    for i in range(3):
        ctx.close(cls, np.max(np.abs(r1[i] - r2[i])) / sc[i], TOL, key, {"eq": i, "max diff": np.max(np.abs(r1[i] - r2[i]))}, cls=cls)


@group(quick=700, thorough=25000)
def symmetries(ctx, rng, idx):
    s = random_spec(rng)
    shared = euler.euler2d(gamma=s.gam) if rng.random() < 0.5 else None      # ONE model object for the problem and all its twins
    ctx.describe(model_object_shared_between_twins=shared is not None, **s.desc())
    r = s.rhs(shared)
    bk = "bc-" + "-".join(sorted(set(d["type"] for d in s.bcl.values())))
    _compare(ctx, "transpose", "transpose/residual-not-transposed/%s/%s" % (s.flux, bk), s, r, untranspose(s, transpose(s).rhs(shared)))
    _compare(ctx, "reflect-x", "reflect-x/residual-not-reflected/%s/%s" % (s.flux, bk), s, r, unreflect(s, reflect(s, 0).rhs(shared), 0))
    _compare(ctx, "reflect-y", "reflect-y/residual-not-reflected/%s/%s" % (s.flux, bk), s, r, unreflect(s, reflect(s, 1).rhs(shared), 1))
    if shared is not None:       # and back on the first grid: the answer must not depend on what the model was used for in between
        r2 = s.rhs(shared)
        ctx.true("transpose", all(np.array_equal(a, b, equal_nan=True) for a, b in zip(r, r2)), "shared-model/residual-changes-after-use-on-other-grids/%s" % s.flux, None, cls="transpose")
    d = ctx.info.setdefault("bc_types", {})
    for b in s.bcl.values():
        d[b["type"]] = d.get(b["type"], 0) + 1
    ctx.nontrivial(s.desc())


@group(quick=700, thorough=25000)
def vs1d(ctx, rng, idx):
    """data varying along one direction only: the 2D residual reproduces the 1D Euler residual row by row"""
    along = idx % 2                      # 0: varies along x, 1: varies along y
    n1, n2 = int(rng.integers(1, 7)), int(rng.integers(1, 7))          # cells along / across
    l1, l2 = float(np.round(rng.uniform(0.5, 4), 3)), float(np.round(rng.uniform(0.5, 4), 3))
    gam = float(rng.choice([1.4, 5 / 3, 1.2]))
    k = KS[int(rng.integers(len(KS)))]
    flux = str(rng.choice(["centered", "hlle"]))
    rho0, p0 = float(10 ** rng.uniform(-1, 1)), float(10 ** rng.uniform(-1, 1))
    c0 = np.sqrt(gam * p0 / rho0)
    rho = rho0 * rng.uniform(0.6, 1.6, n1); p = p0 * rng.uniform(0.6, 1.6, n1); u = rng.uniform(-1.5, 1.5, n1) * c0
    steep = bool(rng.random() < 0.3)
    if steep:
        # steep admissible data: face states of the unlimited extrapolation overshoot through zero; with the centred flux both codes stay
        # finite and must still do the same arithmetic (with hlle both give NaN there: skipped)
        rho = rho0 * 10 ** rng.uniform(-1.2, 1.2, n1); p = p0 * 10 ** rng.uniform(-1.2, 1.2, n1)
        if rng.random() < 0.7:
            flux = "centered"
    lr = str(rng.choice(["per", "open", "open"]))
    if lr == "per":
        b1 = b2 = {"type": "per"}
    else:
        b1 = _bc_side(rng, "left", 1, rho0, p0, gam, ["sym", "insub", "insup", "outsub", "outsup", "dirichlet"])
        b2 = _bc_side(rng, "right", 1, rho0, p0, gam, ["sym", "insub", "insup", "outsub", "outsup", "dirichlet"])
        for b in (b1, b2):
            b.pop("angle", None)
    walls_only = all(b["type"] in ("per", "sym") for b in (b1, b2))
    v0 = float(rng.uniform(-1, 1) * c0) if (walls_only and rng.random() < 0.5) else 0.0
    other = {"type": "per"} if v0 != 0.0 else {"type": str(rng.choice(["per", "sym"]))}
    # 1D reference run (real 1D code)
    m1 = fmesh.unimesh(ncell=n1, length=l1)
    mod1 = euler.euler1d(gamma=gam)
    num1 = xnum.extrapol1() if k is None else xnum.extrapolk(k)
    def bc1d(b):
        d = dict(b)
        if d["type"] == "dirichlet":
            d["prim"] = [float(d["prim"][0][0]), float(d["prim"][1][0][0]), float(d["prim"][2][0])]
        return d
    disc1 = md.fvm(mod1, m1, num1, numflux=flux, bcL=bc1d(b1), bcR=bc1d(b2))
    r1 = disc1.rhs(gen.fdata_prim(mod1, m1, [rho, u, p]))
    # 2D problem
    def bc2d(b, nfaces):
        d = dict(b)
        if d["type"] == "dirichlet":
            un = np.full(nfaces, float(d["prim"][1][0][0]))
            V = np.vstack([un, np.zeros(nfaces)]) if along == 0 else np.vstack([np.zeros(nfaces), un])
            d["prim"] = [np.full(nfaces, float(d["prim"][0][0])), V, np.full(nfaces, float(d["prim"][2][0]))]
        return d
    if along == 0:
        nx, ny, lx, ly = n1, n2, l1, l2
        bcl = {"left": bc2d(b1, ny), "right": bc2d(b2, ny), "bottom": dict(other), "top": dict(other)}
        R = lambda a: np.tile(a, ny)
        V = np.vstack([R(u), np.full(nx * ny, v0)])
    else:
        nx, ny, lx, ly = n2, n1, l2, l1
        bcl = {"bottom": bc2d(b1, nx), "top": bc2d(b2, nx), "left": dict(other), "right": dict(other)}
        R = lambda a: np.repeat(a, nx)
        V = np.vstack([np.full(nx * ny, v0), R(u)])
    s = Spec2D(nx, ny, lx, ly, gam, k, flux, bcl, [R(rho), V, R(p)])
    ctx.describe(along="x" if along == 0 else "y", transverse_velocity=v0, steep_data=steep, bc_1d=[bc1d(b1), bc1d(b2)], **s.desc())
    r2 = s.rhs()
    if not all(np.all(np.isfinite(x)) for x in list(r1) + r2):
        raise core.Skip("nonfinite")
    cls = "2d-vs-1d:" + ("x" if along == 0 else "y")
    sc = _scales(s)
    sc1 = [x * min(lx / nx, ly / ny) / (l1 / n1) for x in sc]
    key = "vs1d/%s/%s/bc-%s-%s" % ("x" if along == 0 else "y", flux, b1["type"], b2["type"])
    exp = [R(r1[0]), R(r1[1]), v0 * R(r1[0]), R(r1[2]) + 0.5 * v0 * v0 * R(r1[0])]
    got = [r2[0], r2[1][along], r2[1][1 - along], r2[2]]
    names = ["mass", "normal-momentum", "transverse-momentum", "energy"]
    scs = [sc1[0], sc1[1], sc1[1], sc1[2]]
    for nm, g, e, q in zip(names, got, exp, scs):
        ctx.close(cls, np.max(np.abs(g - e)) / q, TOL, key + "/" + nm, {"max diff": np.max(np.abs(g - e)), "v0": v0}, cls=cls)
    ctx.nontrivial("vs1d", along, s.desc())
