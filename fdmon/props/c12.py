"""C12 slope limiters in the second-order TVD region.  The four real limiter functions are observed on direct calls
(scalars and arrays) and on every (a, b) pair that real MUSCL runs feed them (checked wrapper installed on muscl.limiter)."""
import numpy as np

import flowdyn.xnum as xnum

from .. import core, gen, probes
from ..core import group

CTX = None
EPS = np.finfo(float).eps
LIMS = {n: getattr(xnum, n) for n in gen.LIMITERS}


def judge(ctx, name, fn, a, b, phi, source):
    """oracle over one call phi = fn(a, b) (arrays, elementwise); fn is the real function (re-invoked for the
    symmetric / odd / homogeneous twins)"""
    a = np.atleast_1d(np.asarray(a, float)); b = np.atleast_1d(np.asarray(b, float)); phi = np.atleast_1d(np.asarray(phi, float))
    a, b, phi = np.broadcast_arrays(a, b, phi)
    fin = np.isfinite(a) & np.isfinite(b)
    if not np.any(fin):
        return
    a, b, phi = a[fin], b[fin], phi[fin]
    cls = "%s:%s" % (name, source)
    ctx.info.setdefault("pairs", {})
    ctx.info["pairs"][cls] = ctx.info["pairs"].get(cls, 0) + int(a.size)
    def wit(mask):
        j = int(np.flatnonzero(mask)[0])
        return {"a": float(a[j]).hex(), "b": float(b[j]).hex(), "a~": float(a[j]), "b~": float(b[j]), "phi": float(phi[j])}
    opp = (a * b <= 0) | (a == 0) | (b == 0) | (np.sign(a) != np.sign(b))
    bad = opp & (phi != 0)
    ctx.true("zero-at-extrema", not np.any(bad), name + "/nonzero-for-opposite-signs-or-zero", wit(bad) if np.any(bad) else None, cls=cls)
    same = ~opp
    if np.any(same):
        aa, bb, pp = a[same], b[same], phi[same]
        mn, mx = np.minimum(np.abs(aa), np.abs(bb)), np.maximum(np.abs(aa), np.abs(bb))
        nf = ~np.isfinite(pp)
        big = mx > 1e100
        ctx.true("finite", not np.any(nf), name + ("/not-finite/huge-slopes" if np.any(nf) and np.all(big[nf]) else "/not-finite"),
                 wit(np.isin(np.arange(a.size), np.flatnonzero(same)[nf])) if np.any(nf) else None, cls=cls)
        ok = ~nf
        sg = (pp[ok] == 0) | (np.sign(pp[ok]) == np.sign(aa[ok]))
        ctx.true("sign", np.all(sg), name + "/wrong-sign", None if np.all(sg) else {"a": aa[ok][~sg][0], "b": bb[ok][~sg][0], "phi": pp[ok][~sg][0]}, cls=cls)
        b2 = np.abs(pp[ok]) <= 2 * mn[ok] * (1 + 4 * EPS)
        ctx.true("twice-smaller", np.all(b2), name + "/exceeds-twice-the-smaller-slope", None if np.all(b2) else {"a": aa[ok][~b2][0], "b": bb[ok][~b2][0], "phi": pp[ok][~b2][0]}, cls=cls)
        b1 = np.abs(pp[ok]) <= mx[ok] * (1 + 4 * EPS)
        ctx.true("larger", np.all(b1), name + "/exceeds-the-larger-slope", None if np.all(b1) else {"a": aa[ok][~b1][0], "b": bb[ok][~b1][0], "phi": pp[ok][~b1][0]}, cls=cls)
    # metamorphic twins on the same real function
    with probes.quiet():
        sym = np.atleast_1d(np.asarray(fn(b, a), float))
        odd = np.atleast_1d(np.asarray(fn(-a, -b), float))
    s_ok = (sym == phi) | (np.isnan(sym) & np.isnan(phi))
    ctx.true("symmetric", np.all(s_ok), name + "/not-symmetric", wit(~s_ok) if not np.all(s_ok) else None, cls=cls)
    o_ok = (odd == -phi) | (np.isnan(odd) & np.isnan(phi))
    ctx.true("odd", np.all(o_ok), name + "/not-odd", wit(~o_ok) if not np.all(o_ok) else None, cls=cls)
    # elementwise: array result == scalar results (sampled)
    for j in np.unique(np.linspace(0, a.size - 1, min(a.size, 8)).astype(int)):
        with probes.quiet():
            sj = float(np.asarray(fn(float(a[j]), float(b[j]))).ravel()[0])
        # python-float a**2 goes through libm pow, numpy arrays through a*a: allow the resulting ulp-level difference
        same_j = (sj == phi[j]) or (np.isnan(sj) and np.isnan(phi[j])) or abs(sj - phi[j]) <= 8 * EPS * abs(phi[j])
        ctx.true("elementwise", same_j, name + "/array-differs-from-scalar-call", {"a": a[j], "b": b[j], "array": phi[j], "scalar": sj}, cls=cls)
    # homogeneity and phi(a,a)=a above the regularisation scale
    reg = same & (np.abs(a) >= 1e-8) & (np.abs(b) >= 1e-8) & (np.abs(a) <= 1e100) & (np.abs(b) <= 1e100) & np.isfinite(phi)
    if np.any(reg):
        ar, br, pr = a[reg], b[reg], phi[reg]
        for lam in (2.0 ** 7, 2.0 ** -5, 3.7, 1e-3):
            keep = (np.abs(ar * lam) >= 1e-8) & (np.abs(br * lam) >= 1e-8) & (np.abs(ar * lam) <= 1e100) & (np.abs(br * lam) <= 1e100)
            if not np.any(keep):
                continue
            with probes.quiet():
                pl = np.atleast_1d(np.asarray(fn(ar[keep] * lam, br[keep] * lam), float))
            mn2 = np.minimum(np.abs(ar[keep]), np.abs(br[keep])) * min(1.0, lam)
            tol = 1e-20 / mn2 ** 2 * 2 + 16 * EPS
            err = np.abs(pl - lam * pr[keep]) / (np.abs(lam * pr[keep]) + 1e-300)
            err = np.where(pr[keep] == 0, np.abs(pl) / (np.abs(lam * ar[keep])), err)
            okh = err <= tol
            ctx.true("homogeneous", np.all(okh), name + "/not-homogeneous", None if np.all(okh) else {"a": ar[keep][~okh][0], "b": br[keep][~okh][0], "lambda": lam, "phi": pr[keep][~okh][0], "phi(lam a, lam b)": pl[~okh][0]}, cls=cls)
        with probes.quiet():
            paa = np.atleast_1d(np.asarray(fn(ar, ar.copy()), float))
        okd = np.abs(paa - ar) <= np.abs(ar) * (1e-20 / ar ** 2 * 2 + 16 * EPS)
        ctx.true("diagonal", np.all(okd), name + "/phi(a,a)-not-a", None if np.all(okd) else {"a": ar[~okd][0], "phi(a,a)": paa[~okd][0]}, cls=cls)


def _wrap_limiter(name, fn):
    def checked(a, b):
        r = fn(a, b)
        try:
            with probes.quiet():
                judge(CTX, name, fn, np.array(a, copy=True), np.array(b, copy=True), np.array(r, copy=True), "muscl-traffic")
        except Exception as e:  # monitor bug must not reach the code under test
            probes._report(e, "limiter wrapper")
        return r
    checked.__name__ = name
    checked.__fdmon_orig__ = fn
    return checked


def _muscl_init_after(args, kwargs, result, tok):
    self = args[0]
    fn = getattr(self.limiter, "__fdmon_orig__", self.limiter)
    for name, f in LIMS.items():
        if fn is f:
            self.limiter = _wrap_limiter(name, f)


def install(ctx):
    global CTX
    CTX = ctx
    probes.hook(xnum.muscl, "__init__", after=_muscl_init_after)


def setup(ctx):
    install(ctx)
    ctx.require(*["%s:%s" % (n, s) for n in gen.LIMITERS for s in ("direct", "muscl-traffic")])


def teardown(ctx):
    for e in probes.errors():
        ctx.harness_error(e)


def _pairs(rng, n):
    """hostile (a, b): every sign combination, ratios 10^+-12, magnitudes 1e-150..1e150, exact zeros, equal, ulp-neighbours"""
    mag = 10 ** rng.uniform(-150, 150, n)
    wide = rng.random(n) < 0.5
    mag = np.where(wide, mag, 10 ** rng.uniform(-9, 9, n))
    ratio = 10 ** rng.uniform(-12, 12, n)
    a = mag * rng.choice([-1.0, 1.0], n)
    b = np.clip(mag * ratio, 1e-150, 1e150) * rng.choice([-1.0, 1.0], n)
    k = n // 10
    b[:k] = a[:k]                                   # equal arguments
    b[k:2 * k] = np.nextafter(a[k:2 * k], np.inf)   # ulp neighbours
    b[2 * k:3 * k] = np.nextafter(a[2 * k:3 * k], -np.inf)
    a[3 * k:4 * k] = 0.0                            # exact zeros
    b[4 * k:5 * k] = 0.0
    a[5 * k:5 * k + 3] = 0.0; b[5 * k:5 * k + 3] = 0.0
    a[5 * k + 3:5 * k + 9] = -0.0; b[5 * k + 6:5 * k + 12] = -0.0          # negative zeros (alone and paired with finite slopes)
    b[6 * k:7 * k] = -a[6 * k:7 * k]                # exactly opposite
    b[7 * k:8 * k] = a[7 * k:8 * k] * (1.0 + rng.choice([-1.0, 1.0], k) * 10 ** rng.uniform(-15, -3, k))    # nearly equal (ratio 1 +- 1e-15...1e-3)
    perm = rng.permutation(n)
    return a[perm], b[perm]


@group(quick=240, thorough=20000)
def direct(ctx, rng, idx):
    name = gen.LIMITERS[idx % 4]
    fn = LIMS[name]
    n = 4000
    a, b = _pairs(rng, n)
    ctx.describe(limiter=name, npairs=n, a=a[:6], b=b[:6])
    phi = fn(a, b)
    judge(ctx, name, fn, a, b, phi, "direct")
    # elementwise: the value for one pair must not depend on which other pairs are in the same call -- sub-arrays selected by the
    # sign pattern (a reduction over the whole array deciding a branch shows here), by position, reshaped and integer-typed
    pos, neg = (a > 0) & (b > 0), (a < 0) & (b < 0)
    subsets = {"agreeing-signs": pos | neg, "both-positive": pos, "both-negative": neg, "opposite-or-zero": ~(pos | neg), "random-half": rng.random(n) < 0.5,
               "first-one": np.arange(n) < 1, "first-two": np.arange(n) < 2, "one-agreeing-pair-of-each-sign": np.isin(np.arange(n), [np.flatnonzero(pos)[0], np.flatnonzero(neg)[0]])}
    phi_a = np.asarray(phi, float)
    for sname, msk in subsets.items():
        if not np.any(msk):
            continue
        with probes.quiet():
            sub = np.asarray(fn(a[msk], b[msk]), float)
        same = (sub == phi_a[msk]) | (np.isnan(sub) & np.isnan(phi_a[msk]))
        ctx.true("elementwise-subsets", bool(np.all(same)), name + "/value-depends-on-the-other-elements-of-the-array", None if np.all(same) else {"subset": sname, "a": a[msk][~same][0], "b": b[msk][~same][0], "in full array": phi_a[msk][~same][0], "in sub-array": sub[~same][0]}, cls="%s:direct" % name)
    with probes.quiet():
        resh = np.asarray(fn(a.reshape(4, -1), b.reshape(4, -1)), float)
    ctx.true("elementwise-subsets", resh.shape == (4, n // 4) and bool(np.all((resh.ravel() == phi_a) | (np.isnan(resh.ravel()) & np.isnan(phi_a)))), name + "/value-depends-on-the-shape-of-the-array", None, cls="%s:direct" % name)
    # integer-typed slopes (judged like any other call, and equal to the same call with floats)
    ia, ib = rng.integers(-6, 7, 200), rng.integers(-6, 7, 200)
    with probes.quiet():
        pi_ = np.asarray(fn(ia, ib), float); pf_ = np.asarray(fn(ia.astype(float), ib.astype(float)), float)
    ctx.true("integer-typed", bool(np.all(np.abs(pi_ - pf_) <= 4 * EPS * np.abs(pf_))), name + "/integer-typed-slopes-differ-from-floats", None if np.all(np.abs(pi_ - pf_) <= 4 * EPS * np.abs(pf_)) else {"a": ia[np.argmax(np.abs(pi_ - pf_))], "b": ib[np.argmax(np.abs(pi_ - pf_))]}, cls="%s:direct" % name)
    judge(ctx, name, lambda x, y: fn(np.asarray(x), np.asarray(y)), ia, ib, pi_, "direct")
    # scalar calls
    # scalar calls: the twins are scalar calls too (python-float ** goes through libm pow, arrays through a*a)
    fs = lambda x, y: np.array([float(fn(float(xi), float(yi))) for xi, yi in zip(np.atleast_1d(x), np.atleast_1d(y))])
    for j in range(5):
        judge(ctx, name, fs, float(a[j]), float(b[j]), fn(float(a[j]), float(b[j])), "direct")
    ctx.nontrivial(name, a[:8], b[:8])


@group(quick=300, thorough=10000)
def muscl_traffic(ctx, rng, idx):
    """pairs that real MUSCL reconstructions feed the limiter (all models, meshes, data kinds)"""
    rec = "muscl_" + gen.LIMITERS[idx % 4]
    s = gen.scenario1d(rng, recons=[rec], mach_max=2.0, ratio=float(rng.choice([10.0, 1e6])))
    ctx.describe(**s.desc())
    s.disc.rhs(s.field)
    ctx.nontrivial(s.desc())
