"""C06 implicit integrators: one real step vs the linear solve done by the monitor on the operator matrix assembled
from the real rhs; BDF2 recurrence of gear; no growth; temporal order vs expm; Jacobian vs central differences."""
import numpy as np
from scipy.linalg import expm

import flowdyn.modeldisc as md
import flowdyn.field as ffield
import flowdyn.integration as tn

from .. import core, gen, probes
from ..core import group

THETA = {"implicit": 1.0, "backwardeuler": 1.0, "trapezoidal": 0.5, "cranknicolson": 0.5}
TOL_STEP = 1e-5       # x max(1, CFL): floor of a sqrt(eps) finite-difference Jacobian; measured worst 5e-8 (normalised) over 4 seeds
CFLS = [0.01, 0.1, 1.0, 10.0, 100.0]
TOL_LARGE = 5e-8      # large linear systems, error / (max|Q| max(1, CFL)); measured worst 8e-9 over 270 cases (finite-difference Jacobian round-off ~ sqrt(eps)); an incomplete LU gives 1e-8...4e-7


def setup(ctx):
    from .. import solvelog
    solvelog.install()
    ctx.on_begin.append(solvelog.reset)
    ctx.require("solve:gear", "solve:cranknicolson", "solve:implicit")
    ctx.require("step:implicit", "step:cranknicolson", "step:gear", "step:backwardeuler", "step:trapezoidal",
                "nogrowth", "order:implicit", "order:cranknicolson", "order:gear", "jacobian", "jacobian-conservative")


def _qrsolve(M, r):
    """reference solve by QR factorisation: LU with partial pivoting suffers exponential element growth on some of these (well
    conditioned) systems -- left-running wave, upwind-biased kappa schemes, CFL 5-10, a few hundred cells (DESIGN 6/D19)"""
    q, rr = np.linalg.qr(M)
    return np.linalg.solve(rr, q.T @ r)


def operator(disc, model, mesh):
    """A and b of R(Q) = A Q + b, assembled from the REAL rhs on unit impulses"""
    n = mesh.ncell
    zero = ffield.fdata(model, mesh, [np.zeros(n)])
    b = disc.rhs(zero)[0].copy()
    A = np.zeros((n, n))
    for j in range(n):
        e = np.zeros(n); e[j] = 1.0
        A[:, j] = disc.rhs(ffield.fdata(model, mesh, [e]))[0] - b
    return A, b


def _linear_scn(rng, meshkinds=gen.MESH_KINDS, nmax=24, bc=None):
    bck = bc or str(rng.choice(["per", "per", "dirichlet"]))
    s = gen.scenario1d(rng, mname="convection", recons=gen.LINEAR_RECONS, bc="per" if bck == "per" else "open", meshkinds=meshkinds, nmin=3, nmax=nmax,
                       dkind=str(rng.choice(["random", "smooth", "step", "spike"])))
    if rng.random() < 0.3 and bck == "per":
        # zero-mean fields -- on homogeneous (periodic) problems only: with Dirichlet data the operator is affine, R = A Q + b, and the
        # code's perturbation sqrt(eps)*mean|Q| of a near-zero field is lost in the round-off of b (Jacobian 1.6e-4 off in a
        # thorough-tier case); the property is stated for dQ/dt = A Q
        s.field.data[0] -= np.mean(s.field.data[0])
    return s


@group(quick=600, thorough=20000)
def linear_step(ctx, rng, idx):
    iname = ["implicit", "cranknicolson", "gear", "backwardeuler", "trapezoidal"][idx % 5]
    s = _linear_scn(rng)
    cfl = float(rng.choice(CFLS + [10 ** rng.uniform(-2, 2)]))
    n = s.mesh.ncell
    A, b = operator(s.disc, s.model, s.mesh)
    dtcell = s.disc.calc_timestep(s.field, cfl)
    localdt = bool(rng.random() < 0.2) and iname != "gear"
    dt = np.array(dtcell, float) if localdt else float(np.min(dtcell))
    D = np.diag(1.0 / (dt * np.ones(n)))
    solver = gen.integ(iname)(s.mesh, s.disc)
    f = s.field.copy()
    Q0 = f.data[0].copy()
    ctx.describe(integrator=iname, cfl=cfl, localdt=localdt, **s.desc())
    qscale = np.max(np.abs(Q0)) + np.max(np.abs(b)) * np.max(dt) + 1e-300
    qscale *= max(1.0, cfl)          # conditioning of the sqrt(eps) finite-difference Jacobian grows with CFL
    tol = TOL_STEP
    cls = "step:" + iname
    try:
        solver.step(f, dt)
    except np.linalg.LinAlgError:
        raise core.Skip("singular")
    R0 = A @ Q0 + b
    vol_ = s.mesh.vol()
    stretched = float(np.max(vol_) / np.min(vol_)) > 1e3

    def _key(base, got, th_, rhs_):
        """known finding D20: on a strongly stretched mesh the step IS the theta scheme of the code's own finite-difference Jacobian
        (checked here to 1e-9), whose O(sqrt(eps)/dx_min) noise is the whole deviation.  Anything else keeps the ordinary key."""
        if not stretched:
            return base
        try:
            expJ = np.linalg.solve(D * (1.5 if th_ is None else 1.0) - (1.0 if th_ is None else th_) * np.array(solver.jacobian, float), rhs_)
        except np.linalg.LinAlgError:
            return base
        if np.max(np.abs(got - expJ)) <= 1e-9 * (np.max(np.abs(expJ)) + np.max(np.abs(got)) + 1e-300):
            return "stretched-mesh-fd-jacobian-noise/" + base
        return base
    if iname != "gear":
        th = THETA[iname]
        exp = Q0 + np.linalg.solve(D - th * A, R0)
        ctx.close("linear-solve", np.max(np.abs(f.data[0] - exp)) / qscale, tol, _key("step/%s/not-theta-scheme" % iname, f.data[0] - Q0, th, R0) if np.max(np.abs(f.data[0] - exp)) / qscale > tol else "step/%s/not-theta-scheme" % iname,
                  {"cfl": cfl, "max diff": np.max(np.abs(f.data[0] - exp)), "cell size ratio": float(np.max(vol_) / np.min(vol_))}, cls=cls)
    else:
        exp1 = Q0 + np.linalg.solve(D - 0.5 * A, R0)       # Crank-Nicolson start of size dt
        ctx.close("gear-start", np.max(np.abs(f.data[0] - exp1)) / qscale, tol, _key("step/gear/first-step-not-cranknicolson", f.data[0] - Q0, 0.5, R0) if np.max(np.abs(f.data[0] - exp1)) / qscale > tol else "step/gear/first-step-not-cranknicolson",
                  {"cfl": cfl, "max diff": np.max(np.abs(f.data[0] - exp1)), "ratio to CN increment": float(np.linalg.norm(f.data[0] - Q0) / (np.linalg.norm(exp1 - Q0) + 1e-300))}, cls=cls)
        ctx.close("gear-time", abs(f.time - s.field.time - dt) / dt, 1e-12, "step/gear/first-step-time", {"advance/dt": (f.time - s.field.time) / dt}, cls=cls)
        # BDF2 recurrence, judged on increments actually taken by the real code (independent of the start)
        prev = f.data[0].copy(); dprev = prev - Q0
        for k in range(3):
            solver.step(f, dt)
            new = f.data[0].copy()
            expd = np.linalg.solve(1.5 * np.eye(n) - dt * A, dt * (A @ prev + b) + 0.5 * dprev)
            sc = (np.max(np.abs(prev)) + np.max(np.abs(dprev)) + 1e-300) * max(1.0, cfl)
            kk_ = "step/gear/not-bdf2-recurrence"
            if np.max(np.abs((new - prev) - expd)) / sc > tol:
                kk_ = _key(kk_, new - prev, None, (A @ prev + b) + 0.5 * dprev / dt)
            ctx.close("gear-bdf2", np.max(np.abs((new - prev) - expd)) / sc, tol, kk_, {"k": k, "cfl": cfl}, cls=cls)
            dprev, prev = new - prev, new
    ctx.nontrivial("lin", iname, cfl, localdt, s.desc())


class _MatDisc:
    """dQ/dt = A Q with an arbitrary matrix (no mesh behind it); the result is handed out as fresh arrays or in ONE work buffer
    that is overwritten at every call -- both are ordinary ways to write a right-hand side"""
    def __init__(self, A, buffer):
        self.A, self.buffer, self._buf, self.ncall = A, buffer, None, 0

    def rhs(self, f):
        self.ncall += 1
        r = self.A @ f.data[0]
        if not self.buffer:
            return [r]
        if self._buf is None:
            self._buf = [r.copy()]
        else:
            self._buf[0][...] = r
        return self._buf


@group(quick=300, thorough=10000)
def matrix_step(ctx, rng, idx):
    """the statement itself: dQ/dt = A Q for a random dissipative-or-neutral matrix A (not a discretisation), any field, any dt"""
    from .c05 import _Mesh, _Model
    iname = ["implicit", "cranknicolson", "gear", "backwardeuler", "trapezoidal"][idx % 5]
    n = int(rng.integers(1, 9))
    S = rng.uniform(-1, 1, (n, n)); K = rng.uniform(-1, 1, (n, n))
    A = -(S @ S.T) * float(rng.choice([0.0, 1.0, 1.0])) + (K - K.T)        # Re(eigenvalues) <= 0: (I - theta dt A) is well conditioned
    if not np.any(A):
        A = -np.eye(n)
    z = float(rng.choice([0.01, 0.1, 1.0, 10.0, 10 ** rng.uniform(-2, 1.5)]))
    dt = z / (np.linalg.norm(A, 2) + 1e-300)
    model = _Model(); model.islinear = int(rng.integers(2))
    buffer = bool(rng.random() < 0.5)
    disc = _MatDisc(A, buffer)
    mesh = _Mesh(n)
    Q0 = rng.uniform(-1, 1, n) * float(10 ** rng.uniform(-3, 3))
    f = ffield.fdata(model, mesh, [Q0.copy()], t=float(rng.uniform(-1, 1)))
    t0 = f.time
    ctx.describe(integrator=iname, A=A, dt=dt, dt_times_norm_A=z, Q0=Q0, model_islinear=model.islinear, rhs_returns="one work buffer overwritten at every call" if buffer else "fresh arrays")
    solver = gen.integ(iname)(mesh, disc)
    solver.step(f, dt)
    cls = "step:" + iname
    I = np.eye(n)
    sc = np.max(np.abs(Q0)) * (1 + z) + 1e-300
    th = THETA.get(iname, 0.5)
    exp1 = np.linalg.solve(I - th * dt * A, (I + (1 - th) * dt * A) @ Q0)
    ctx.close("matrix-step", np.max(np.abs(f.data[0] - exp1)) / sc, TOL_STEP, "matrix-step/%s/%s" % (iname, "not-theta-scheme" if iname != "gear" else "first-step-not-cranknicolson"),
              {"max diff": np.max(np.abs(f.data[0] - exp1)), "rhs returns": "buffer" if buffer else "fresh"}, cls=cls)
    ctx.close("matrix-step", abs(f.time - t0 - dt) / dt, 1e-9 * max(1.0, abs(t0) / dt), "matrix-step/%s/time-advance" % iname, None, cls=cls)
    ctx.true("matrix-step", np.array_equal(disc.A, A), "matrix-step/%s/operator-modified" % iname, None, cls=cls)
    if iname == "gear":
        prev = f.data[0].copy(); dprev = prev - Q0
        for k in range(3):
            solver.step(f, dt)
            new = f.data[0].copy()
            expd = np.linalg.solve(1.5 * I - dt * A, dt * (A @ prev) + 0.5 * dprev)
            ctx.close("matrix-step", np.max(np.abs((new - prev) - expd)) / ((np.max(np.abs(prev)) + np.max(np.abs(dprev))) * (1 + z) + 1e-300), TOL_STEP, "matrix-step/gear/not-bdf2-recurrence", {"k": k, "rhs returns": "buffer" if buffer else "fresh"}, cls=cls)
            dprev, prev = new - prev, new
    else:
        # a second step from the new state with another dt on the same object
        dt2 = dt * float(rng.choice([0.5, 2.0, 1.0]))
        Q1 = f.data[0].copy()
        solver.step(f, dt2)
        exp2 = np.linalg.solve(I - th * dt2 * A, (I + (1 - th) * dt2 * A) @ Q1)
        ctx.close("matrix-step", np.max(np.abs(f.data[0] - exp2)) / (np.max(np.abs(Q1)) * (1 + 2 * z) + 1e-300), TOL_STEP, "matrix-step/%s/second-step-not-theta-scheme" % iname, {"rhs returns": "buffer" if buffer else "fresh"}, cls=cls)
    ctx.nontrivial("matrix", iname, n, z, buffer, model.islinear, Q0[:3])


@group(quick=200, thorough=6000)
def trajectory_in_solve(ctx, rng, idx):
    """the same step formulas INSIDE real solves/restarts of a linear problem (save times inside the first and later steps, monitors,
    an integrator object that has run before): every state of the recorded main trajectory is the theta-scheme / Crank-Nicolson
    start + BDF2 recurrence image of the previous ones -- snapshots and monitors must not disturb the multistep history"""
    from .. import solvelog
    iname = ["gear", "gear", "cranknicolson", "implicit"][idx % 4]
    s = _linear_scn(rng, nmax=14)
    cfl = float(rng.choice([0.5, 1.0, 2.0, 5.0, 10 ** rng.uniform(-1, 1)]))
    n = s.mesh.ncell
    A, b = operator(s.disc, s.model, s.mesh)
    with probes.quiet():
        dt = float(np.min(s.disc.calc_timestep(s.field, cfl)))
    N = int(rng.integers(2, 7))
    t0 = s.field.time
    # save times: inside the first step (most cases), inside later steps, exactly at the start
    ts = []
    if rng.random() < 0.7:
        ts.append(t0 + dt * float(rng.uniform(0.05, 0.95)))
    if rng.random() < 0.3:
        ts.append(t0 + dt * float(rng.uniform(0.05, 0.95)))
    for _ in range(int(rng.integers(0, 3))):
        ts.append(t0 + dt * (int(rng.integers(1, N)) + float(rng.uniform(0.05, 0.95))))
    if rng.random() < 0.2:
        ts.append(t0)
    ts = sorted(ts)
    mons = {"residual": {"frequency": int(rng.integers(1, 3))}} if rng.random() < 0.5 else {}
    used = bool(rng.random() < 0.3)
    ctx.describe(integrator=iname, cfl=cfl, dt=dt, N=N, tsave=ts, save_times_in_units_of_dt=[(t - t0) / dt for t in ts], monitors=mons, integrator_used_before=used, **s.desc())
    solver = gen.integ(iname)(s.mesh, s.disc)
    try:
        if used:
            solver.solve(s.field, cfl * 0.6, [t0 + 0.3 * dt], stop={"maxit": 2})
        del solvelog.LOGS[:]
        solver.solve(s.field, cfl, ts, stop={"maxit": N, "tottime": 1e30}, monitors=mons)
    except np.linalg.LinAlgError:
        raise core.Skip("singular")
    traj = solvelog.LOGS[-1].trajectory()
    Q = [np.asarray(t["data"][0], float) for t in traj]
    if len(Q) != N + 1 or not all(np.all(np.isfinite(q)) for q in Q):
        raise core.Skip("trajectory not finite / not N steps")
    I = np.eye(n)
    cls = "solve:" + iname
    th = THETA.get(iname, 0.5)
    worst = 0.0
    for k in range(N):
        if iname == "gear" and k >= 1:
            exp = Q[k] + np.linalg.solve(1.5 * I - dt * A, dt * (A @ Q[k] + b) + 0.5 * (Q[k] - Q[k - 1]))
            what = "not-bdf2-recurrence"
        else:
            exp = Q[k] + np.linalg.solve(I / dt - th * A, A @ Q[k] + b)
            what = "first-step-not-cranknicolson" if iname == "gear" else "not-theta-scheme"
        sc = (np.max(np.abs(Q[k])) + np.max(np.abs(b)) * dt + 1e-300) * max(1.0, cfl)
        err = float(np.max(np.abs(Q[k + 1] - exp)) / sc)
        worst = max(worst, err)
        ctx.close("trajectory", err, TOL_STEP, "solve/%s/%s" % (iname, what), {"step": k, "cfl": cfl, "save times / dt": [(t - t0) / dt for t in ts]}, cls=cls)
    ctx.nontrivial("traj", iname, cfl, N, ts, s.desc())


@group(quick=5, thorough=60)
def large_linear_step(ctx, rng, idx):
    """the linear statement on LARGE systems (1001-1400 unknowns, thorough: up to 2200): a size-dependent path of the linear solve
    (sparse / banded / iterative above a threshold) is only taken there.  Smooth data, uniform or refined mesh, periodic; judged
    against numpy's dense solve of the theta / BDF2 system with the operator assembled from the real rhs."""
    iname = ["implicit", "cranknicolson", "gear", "backwardeuler", "trapezoidal"][idx % 5]
    r = rng.random()
    n = int(rng.integers(150, 701)) if r < 0.4 else int(rng.integers(1001, 1401)) if (ctx.tier == "quick" or r < 0.85) else int(rng.integers(2049, 2201))
    s = gen.scenario1d(rng, mname="convection", recons=["extrapol1", "extrapol2", "extrapol3", "fromm", "quick"], bc="per", meshkinds=["uni", "refined"], ncell=n, dkind="smooth", warm=False)
    cfl = float(rng.choice([0.5, 2.0, 5.0, 10.0, 50.0]))
    if idx < 4:
        # fixed witnesses of D19 (LU element growth): left-running wave, upwind-biased kappa scheme, uniform mesh, CFL 10 --
        # 400 unknowns (growth 1e17) and 2140 unknowns (growth 1e170: the euclidean norms of a residual test overflow)
        import flowdyn.modelphy.convection as conv_
        import flowdyn.mesh as fmesh_
        import flowdyn.xnum as xnum_
        n = [400, 2140, 400, 2140][idx]; cfl = 10.0
        s.mesh = fmesh_.unimesh(ncell=n, length=1.0); s.model = conv_.model(-1.3); s.mdesc = {"kind": "uni", "ncell": n, "length": 1.0}
        s.rname = ["quick", "quick", "extrapol3", "fromm"][idx]; s.num = xnum_.extrapolk({"quick": 0.5, "fromm": 0.0}[s.rname]) if s.rname != "extrapol3" else xnum_.extrapol3()
        s.disc = md.fvm(s.model, s.mesh, s.num); s.mparams = {"convcoef": -1.3}
        s.field = ffield.fdata(s.model, s.mesh, [np.sin(2 * np.pi * s.mesh.centers())])
    with probes.quiet():
        A, b = operator(s.disc, s.model, s.mesh)
        dt = float(np.min(s.disc.calc_timestep(s.field, cfl)))
    ctx.describe(integrator=iname, cfl=cfl, unknowns=n, **{k: v for k, v in s.desc().items() if k != "prim"})
    solver = gen.integ(iname)(s.mesh, s.disc)
    f = s.field.copy(); Q0 = f.data[0].copy()
    with probes.quiet():
        solver.step(f, dt)
    I = np.eye(n)
    th = THETA.get(iname, 0.5)
    exp1 = Q0 + _qrsolve(I / dt - th * A, A @ Q0 + b)
    sc = (np.max(np.abs(Q0)) + 1e-300) * max(1.0, cfl)
    e1 = float(np.max(np.abs(f.data[0] - exp1)) / sc)
    ctx.close("large-step", e1, TOL_LARGE, "large-step/%s/%s" % (iname, "not-theta-scheme" if iname != "gear" else "first-step-not-cranknicolson"), {"unknowns": n, "cfl": cfl}, cls="step:" + iname)
    worst = e1
    if iname == "gear":
        prev = f.data[0].copy(); dprev = prev - Q0
        for k in range(2):
            with probes.quiet():
                solver.step(f, dt)
            new = f.data[0].copy()
            expd = _qrsolve(1.5 * I - dt * A, dt * (A @ prev + b) + 0.5 * dprev)
            e = float(np.max(np.abs((new - prev) - expd)) / ((np.max(np.abs(prev)) + np.max(np.abs(dprev)) + 1e-300) * max(1.0, cfl)))
            worst = max(worst, e)
            ctx.close("large-step", e, TOL_LARGE, "large-step/gear/not-bdf2-recurrence", {"k": k, "unknowns": n, "cfl": cfl}, cls="step:gear")
            dprev, prev = new - prev, new
    ctx.info["large_step_worst_normalised_error"] = max(ctx.info.get("large_step_worst_normalised_error", 0.0), worst)
    ctx.nontrivial("large", iname, n, cfl, s.desc())


@group(quick=300, thorough=10000)
def no_growth(ctx, rng, idx):
    """uniform periodic mesh (normal operator, Re(lambda) <= 0): the 2-norm never grows, whatever the CFL number"""
    iname = ["implicit", "cranknicolson", "gear"][idx % 3]
    s = _linear_scn(rng, meshkinds=["uni"], nmax=16, bc="per")
    A, b = operator(s.disc, s.model, s.mesh)
    lam = np.linalg.eigvals(A)
    if np.max(lam.real) > 1e-9 * np.max(np.abs(lam)):
        raise core.Skip("operator has growing modes")       # e.g. downwind-biased kappa
    cfl = float(rng.choice(CFLS + [10 ** rng.uniform(-2, 2)]))
    dt = float(np.min(s.disc.calc_timestep(s.field, cfl)))
    solver = gen.integ(iname)(s.mesh, s.disc)
    f = s.field.copy()
    ctx.describe(integrator=iname, cfl=cfl, **s.desc())
    norms = [np.linalg.norm(f.data[0])]
    nst = 4
    for k in range(nst):
        solver.step(f, dt)
        norms.append(np.linalg.norm(f.data[0]))
    norms = np.array(norms)
    if iname == "gear":
        # BDF2 is A-stable but not contractive step by step in the 2-norm: bound the whole run instead (G-stability)
        g = np.max(norms[1:]) / (norms[0] + 1e-300)
        ctx.close("nogrowth-gear", max(0.0, g - 1.0), 0.5 + 1e-4 * cfl, "nogrowth/gear", {"norms": norms, "cfl": cfl}, cls="nogrowth")
    else:
        g = np.max(norms[1:] / (norms[:-1] + 1e-300))
        ctx.close("nogrowth", max(0.0, g - 1.0) / max(1.0, cfl), 1e-4, "nogrowth/" + iname, {"norms": norms, "cfl": cfl}, cls="nogrowth")
    ctx.nontrivial("nogrowth", iname, cfl, s.desc())


@group(quick=45, thorough=1500)
def temporal_order(ctx, rng, idx):
    iname = ["implicit", "cranknicolson", "gear"][idx % 3]
    s = _linear_scn(rng, nmax=12, bc="per")
    vol = s.mesh.vol()
    if np.max(vol) / np.min(vol) > 1e3:
        raise core.Skip("strongly stretched mesh: judged by stretched_mesh_order")
    s.field.data[0] = gen.smooth(rng, s.mesh.centers(), s.mesh.length, -1.0, 1.0)
    A, b = operator(s.disc, s.model, s.mesh)
    lam = np.linalg.eigvals(A)
    if np.max(lam.real) > 1e-9 * np.max(np.abs(lam)):
        raise core.Skip("operator has growing modes")
    T = 0.5 / np.max(np.abs(lam))
    ref = expm(T * A) @ s.field.data[0]
    errs = []
    for ns in (8, 16, 32, 64):
        solver = gen.integ(iname)(s.mesh, s.disc)
        f = s.field.copy()
        for _ in range(ns):
            solver.step(f, T / ns)
        errs.append(np.max(np.abs(f.data[0] - ref)))
    errs = np.array(errs)
    p = np.log2(errs[:-1] / errs[1:])
    need = 0.75 if iname == "implicit" else 1.6
    ctx.describe(integrator=iname, T=T, errors=errs, orders=p, **s.desc())
    ctx.true("order", p[-1] >= need or errs[-1] < 1e-9, "order/%s/below-design" % iname, {"orders": p, "errors": errs, "need": need}, cls="order:" + iname)
    ctx.nontrivial("order", iname, s.desc())


@group(quick=10, thorough=300)
def stretched_mesh_order(ctx, rng, idx):
    """temporal order on STRONGLY STRETCHED meshes (cell sizes 1e3...1e8 apart).  The residual of a thin cell is O(|q|/dx_min), so the
    round-off of the code's sqrt(eps) finite-difference Jacobian is O(sqrt(eps)/dx_min) in absolute terms -- 0.1 for a cell 1e-7
    times thinner than its neighbours -- and Crank-Nicolson / gear converge at first order although their formulas are right (the
    same recurrences with the exact operator, computed here, converge at second order).  Known finding D20: own mechanism key."""
    iname = ["cranknicolson", "gear", "implicit"][idx % 3]
    import flowdyn.modelphy.convection as conv
    if idx < 3:
        # fixed witness (thorough-tier discovery): 7 cells, one of them 6.8e-8 wide, centred reconstruction, a = 1.407
        xf = np.array([0.0, 0.2975452332843009, 0.6952663505984217, 0.9398046432556559, 1.19741607203748, 1.197416140529421, 1.721886681531542, 2.271])
        mesh = gen.mesh_from_faces(xf); model = conv.model(1.407)
        import flowdyn.xnum as xnum
        disc = md.fvm(model, mesh, xnum.extrapolk(1.0)); rname = "centered"
    else:
        for _ in range(50):
            sc = gen.scenario1d(rng, mname="convection", recons=gen.LINEAR_RECONS, bc="per", meshkinds=["arb", "refined"], nmin=4, nmax=12, warm=False)
            v = sc.mesh.vol()
            if np.max(v) / np.min(v) > 1e3:
                break
        else:
            raise core.Skip("no stretched mesh drawn")
        mesh, model, disc, rname = sc.mesh, sc.model, sc.disc, sc.rname
    n = mesh.ncell
    q0 = gen.smooth(rng, mesh.centers(), mesh.length, -1.0, 1.0)
    f0 = ffield.fdata(model, mesh, [q0])
    A, b = operator(disc, model, mesh)
    lam = np.linalg.eigvals(A)
    if np.max(lam.real) > 1e-9 * np.max(np.abs(lam)):
        raise core.Skip("operator has growing modes")
    T = 0.5 / np.max(np.abs(lam))
    ref = expm(T * A) @ q0
    I = np.eye(n)
    th = THETA.get(iname, 0.5)
    errs, exact = [], []
    for ns in (8, 16, 32, 64):
        solver = gen.integ(iname)(mesh, disc)
        f = f0.copy()
        for _ in range(ns):
            solver.step(f, T / ns)
        errs.append(np.max(np.abs(f.data[0] - ref)))
        # the same recurrence with the exact operator
        dt = T / ns
        qa = q0.copy(); qb = np.linalg.solve(I - th * dt * A, (I + (1 - th) * dt * A) @ qa)
        for _ in range(ns - 1):
            if iname == "gear":
                qa, qb = qb, np.linalg.solve(1.5 * I - dt * A, 2 * qb - 0.5 * qa)
            else:
                qa, qb = qb, np.linalg.solve(I - th * dt * A, (I + (1 - th) * dt * A) @ qb)
        exact.append(np.max(np.abs(qb - ref)))
    errs, exact = np.array(errs), np.array(exact)
    p = np.log2(errs[:-1] / errs[1:]); pe = np.log2(exact[:-1] / exact[1:])
    need = 0.75 if iname == "implicit" else 1.6
    v = mesh.vol()
    ctx.describe(integrator=iname, recon=rname, faces=np.asarray(mesh.xf), cell_size_ratio=float(np.max(v) / np.min(v)), T=T, errors=errs, orders=p, errors_with_exact_operator=exact, orders_with_exact_operator=pe)
    ctx.true("stretched-order", p[-1] >= need or errs[-1] < 1e-9, "stretched-mesh-fd-jacobian-noise/order/%s" % iname,
             {"orders": p, "errors": errs, "need": need, "orders of the same recurrence with the exact operator": pe, "cell size ratio": float(np.max(v) / np.min(v))}, cls="order:" + iname)
    ctx.true("stretched-order-formula", pe[-1] >= need or exact[-1] < 1e-9, "order/%s/recurrence-with-exact-operator-below-design" % iname, {"orders": pe}, cls="order:" + iname)
    ctx.nontrivial("stretched", iname, idx, np.asarray(mesh.xf))


def _smooth_scn(rng):
    mname = str(rng.choice(["euler1d", "burgers", "shallowwater", "nozzle"]))
    limited = rng.random() < 0.3
    if limited:
        # limiters only on strictly monotone profiles with Dirichlet ends (away from the kinks of phi)
        rec = [str(rng.choice(["muscl_vanalbada", "muscl_vanleer"]))]
        s = gen.scenario1d(rng, mname=mname, recons=rec, bc="open", nmin=5, nmax=10, meshkinds=["uni", "morphed"], fluxes=gen.UPWIND_FLUXES)
        n = s.mesh.ncell
        x = (np.arange(n) + 0.5) / n
        if mname == "burgers":
            prim = [1.0 + 0.5 * x + 0.1 * x * x]
        elif mname == "shallowwater":
            prim = [1.0 + 0.3 * x + 0.05 * x * x, 0.5 + 0.2 * x + 0.1 * x * x]
        else:
            prim = [1.0 + 0.3 * x + 0.05 * x * x, 0.3 + 0.2 * x + 0.1 * x * x, 1.0 + 0.4 * x + 0.1 * x * x]
        s.prim = prim
        s.bcL = {"type": "dirichlet", "prim": [float(p[0]) for p in prim]}
        s.bcR = {"type": "dirichlet", "prim": [float(p[-1]) for p in prim]}
        s.disc = md.fvm(s.model, s.mesh, s.num, numflux=s.flux, bcL=s.bcL, bcR=s.bcR)
        s.field = gen.fdata_prim(s.model, s.mesh, prim)
    else:
        s = gen.scenario1d(rng, mname=mname, recons=["extrapol1", "extrapol2", "extrapol3", "fromm", "extrapolk"], bc="per", nmin=4, nmax=10, dkind="smooth",
                           mach_max=0.6, ratio=2.0)
        if mname == "burgers":     # keep away from u = 0 (upwind switch) : one-signed smooth data
            s.prim = [1.0 + 0.4 * np.sin(2 * np.pi * (np.arange(s.mesh.ncell) + 0.5) / s.mesh.ncell + rng.uniform(0, 6))]
            s.field = gen.fdata_prim(s.model, s.mesh, s.prim)
    if not limited and rng.random() < 0.3:
        # the same state in other UNITS: velocities of 1e-8...1e4 (Burgers), densities and pressures of 1e-10...1e8 (gas / water column):
        # the Jacobian and the step must be right whatever the size of the numbers (a differencing step that stops scaling with the state
        # below 1 is not)
        amp = float(10 ** rng.uniform(-8, 4)) if mname == "burgers" else float(10 ** rng.uniform(-10, 8))
        if mname == "burgers":
            s.prim = [s.prim[0] * amp]
        elif mname == "shallowwater":
            s.prim = [s.prim[0] * amp, s.prim[1] * np.sqrt(amp)]          # same Froude numbers
        else:
            s.prim = [s.prim[0] * amp, s.prim[1], s.prim[2] * amp]          # same Mach numbers
        s.field = gen.fdata_prim(s.model, s.mesh, s.prim)
        s.units = amp
    return s, limited


@group(quick=200, thorough=6000)
def nonlinear_step(ctx, rng, idx):
    """the linearised system of one REAL step on a nonlinear multi-equation problem (Euler, nozzle, shallow water, Burgers), with one
    global time step or one time step PER CELL: increment = (D - theta J)^-1 R with D = diag(1/dt of the cell of each unknown), J the
    Jacobian the integrator itself holds after the step (compared with the derivative of the operator by the 'jacobian' group) and
    R the real right-hand side"""
    s, limited = _smooth_scn(rng)
    iname = ["implicit", "cranknicolson", "backwardeuler", "trapezoidal", "gear"][idx % 5]
    n, neq = s.mesh.ncell, s.model.neq
    cfl = float(rng.choice([0.3, 1.0, 3.0, 10 ** rng.uniform(-1, 1)]))
    with probes.quiet():
        dtc = np.asarray(s.disc.calc_timestep(s.field, cfl), float)
        R0 = [np.array(r, float, copy=True) for r in s.disc.rhs(s.field.copy())]
    if not np.all(np.isfinite(dtc)):
        raise core.Skip("no finite time step")
    local = bool(rng.random() < 0.6)
    dt = dtc.copy() if local else float(np.min(dtc))
    ctx.describe(integrator=iname, cfl=cfl, local_time_steps=local, dt=dt, limited=limited, **s.desc())
    solver = gen.integ(iname)(s.mesh, s.disc)
    f = s.field.copy()
    try:
        solver.step(f, dt)
    except np.linalg.LinAlgError:
        raise core.Skip("singular")
    J = np.array(solver.jacobian, float)
    th = THETA.get(iname, 0.5)          # gear starts with a Crank-Nicolson step
    D = np.diag(np.repeat(1.0 / (dt * np.ones(n)), neq))           # unknowns are ordered cell by cell, equation index fastest
    rhs = np.zeros(n * neq)
    for q in range(neq):
        rhs[q::neq] = R0[q]
    try:
        inc = np.linalg.solve(D - th * J, rhs)
        cond = float(np.linalg.cond(D - th * J))
    except np.linalg.LinAlgError:
        raise core.Skip("singular reference system")
    if not cond < 1e8:
        raise core.Skip("ill-conditioned system")
    cls = "step:" + iname
    for q in range(neq):
        got = np.asarray(f.data[q], float) - np.asarray(s.field.data[q], float)
        sc = np.max(np.abs(inc[q::neq])) + 1e-12 * cond * np.max(np.abs(s.field.data[q])) + 1e-300
        ctx.close("nonlinear-step", float(np.max(np.abs(got - inc[q::neq])) / sc), 1e-9, "nonlinear-step/%s/increment-is-not-the-solution-of-the-linearised-system/%s" % (iname, "local-time-steps" if local else "global-time-step"),
                  {"eq": q, "model": s.mname, "cond": cond}, cls=cls)
    ctx.close("nonlinear-step", abs(f.time - s.field.time - float(np.min(dt))) / float(np.min(dt)), 1e-9, "nonlinear-step/%s/time-advance" % iname, None, cls=cls)
    ctx.nontrivial("nlstep", iname, cfl, local, s.desc())


@group(quick=200, thorough=6000)
def jacobian(ctx, rng, idx):
    """calc_jacobian of the real integrator vs central differences of the real rhs (Richardson-checked)"""
    s, limited = _smooth_scn(rng)
    iname = ["implicit", "cranknicolson", "gear"][idx % 3]
    solver = gen.integ(iname)(s.mesh, s.disc)
    ctx.describe(integrator=iname, limited=limited, **s.desc())
    J = solver.calc_jacobian(s.field.copy())
    n, neq = s.mesh.ncell, s.model.neq
    if J is None or not np.all(np.isfinite(J)):
        ctx.true("jacobian", False, "jacobian/not-finite", None, cls="jacobian")
        return
    qsc = [np.mean(np.abs(q)) + 1e-300 for q in s.field.data]

    def R(vec):
        f = s.field.copy()
        for q in range(neq):
            f.data[q] = s.field.data[q] + vec[q::neq]
        r = s.disc.rhs(f)
        out = np.zeros(n * neq)
        for q in range(neq):
            out[q::neq] = r[q]
        return out
    worst = 0.0
    _probes_used = []
    for _ in range(3):
        v = np.zeros(n * neq)
        for q in range(neq):
            v[q::neq] = rng.uniform(-1, 1, n) * qsc[q]
        d1 = (R(1e-5 * v) - R(-1e-5 * v)) / 2e-5
        d2 = (R(2e-5 * v) - R(-2e-5 * v)) / 4e-5
        ref = (4 * d1 - d2) / 3.0
        if np.max(np.abs(d1 - d2)) > 3e-7 * (np.max(np.abs(ref)) + 1e-300):
            ctx.skip("jacobian:kink-near-state")
            continue
        Jv = J @ v
        _probes_used.append((v, ref))
        # error per equation, normalised by the size of that equation's derivative
        for q in range(neq):
            sc = np.max(np.abs(ref[q::neq])) + np.max(np.abs(J[q::neq, :])) * 1e-3 * min(qsc) + 1e-300
            worst = max(worst, np.max(np.abs(Jv[q::neq] - ref[q::neq])) / sc)
    jkey = "jacobian/not-derivative-of-rhs"
    vol_ = s.mesh.vol()
    if worst > 2e-4 and float(np.max(vol_) / np.min(vol_)) > 1e3:
        # known finding D20 (round-off of the one-sided difference, O(sqrt(eps)/dx_min)): confirmed when the REAL calc_jacobian with a
        # 10 times SMALLER step (its own epsdiff argument) is at least 3 times further from the derivative -- round-off grows like
        # 1/step, truncation shrinks, a wrong formula would not care
        try:
            with probes.quiet():
                J30 = np.array(gen.integ(iname)(s.mesh, s.disc).calc_jacobian(s.field.copy(), epsdiff=0.1), float)
            # (absolute deviations over all unknowns: the per-equation normalisation above can be dominated by an equation whose own
            # derivative is small and merely receives the noise of the thin cells' rows)
            w30 = max(float(np.max(np.abs(J30 @ v_ - ref_))) for v_, ref_ in _probes_used)
            wabs = max(float(np.max(np.abs(J @ v_ - ref_))) for v_, ref_ in _probes_used)
            if w30 > 3.0 * wabs:
                jkey = "stretched-mesh-fd-jacobian-noise/" + jkey
        except Exception:   # noqa
            pass
    ctx.close("jacobian", worst, 2e-4, jkey, {"model": s.mname, "recon": s.rname, "cell size ratio": float(np.max(vol_) / np.min(vol_))}, cls="jacobian")
    if s.bckind == "per":
        vol = s.mesh.vol()
        epsm = float(np.finfo(float).eps)
        dstep = [float(np.sqrt(epsm) * (np.sum(np.abs(d_)) / d_.size or 1.0)) for d_ in s.field.data]      # the library's own difference steps
        for q in range(neq):
            colsum = vol @ J[q::neq, :]
            sc = np.max(np.abs(J[q::neq, :])) * np.max(vol) * n + 1e-300
            # round-off of the one-sided difference: the residual of equation q is made of terms of size sum_p |dR_q/dQ_p| |Q_p|, known to
            # eps relative, and divided by a step sqrt(eps) mean|Q_p'| -- when a variable is tiny next to the others (momentum of a
            # nearly resting layer: Froude 1e-3 in units of 1e-10) that step is far below the round-off of the pressure term (thorough-tier witness)
            terms = sum(float(np.max(np.abs(J[q::neq, p_::neq]))) * float(np.max(np.abs(s.field.data[p_]))) for p_ in range(neq))
            noise = max(epsm * terms / d_ for d_ in dstep) * float(np.max(vol)) * n
            ctx.close("jacobian-conservative", np.max(np.abs(colsum)) / sc, 1e-4 + noise / sc, "jacobian/columns-not-conservative", {"eq": q, "difference-quotient round-off allowed": noise / sc}, cls="jacobian-conservative")
    ctx.nontrivial("jac", iname, s.desc())
