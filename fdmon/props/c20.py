"""C20 meshes are valid partitions with consistent connectivity.  Always-on monitor on every (outermost) mesh constructor."""
import numpy as np

import flowdyn.mesh as fmesh
import flowdyn.mesh2d as fmesh2d
import flowdyn.xnum as xnum
import flowdyn.field as ffield
import flowdyn.modelphy.euler as euler

from .. import core, gen, probes
from ..core import group

CTX = None
_depth = {"n": 0}
EPS = np.finfo(float).eps


def ulp(x):
    return float(np.spacing(abs(float(x)) + 1e-300))


WHEN = {"suffix": ""}      # "" at construction time; "/after-another-mesh-was-built" when an older mesh is judged again


class _KeyCtx:
    """proxy adding the WHEN suffix to the mechanism keys"""
    def __init__(self, ctx):
        self._c = ctx

    def true(self, name, cond, key, detail=None, cls=None):
        return self._c.true(name, cond, key + WHEN["suffix"], detail, cls=cls)

    def close(self, name, err, tol, key, detail=None, cls=None):
        return self._c.close(name, err, tol, key + WHEN["suffix"], detail, cls=cls)

    def __getattr__(self, n):
        return getattr(self._c, n)


def rejudge(ctx, m, args=None):
    """judge an EXISTING mesh again (after other meshes have been built): nothing about it may have changed"""
    WHEN["suffix"] = "/after-another-mesh-was-built"
    try:
        if isinstance(m, fmesh2d.mesh2d):
            judge2d(ctx, m, args or {})
        else:
            kind = type(m).__name__
            judge1d(ctx, m, "mesh1d" if kind == "unimesh" else kind, args or {})
        ctx.ev("rejudged")
    finally:
        WHEN["suffix"] = ""


def judge1d(ctx, m, kind, args):
    ctx = _KeyCtx(ctx)
    cls = "mesh:" + kind
    n = m.ncell
    xf = np.asarray(m.xf, float)
    if not ctx.true("nfaces", xf.shape == (n + 1,) and m.nbfaces() == n + 1, kind + "/face-count", {"ncell": n, "len(xf)": xf.shape}, cls=cls):
        return
    d = np.diff(xf)
    ctx.true("increasing", np.all(np.isfinite(xf)) and np.all(d > 0), kind + "/faces-not-strictly-increasing", {"min spacing": float(np.min(d)) if n else None}, cls=cls)
    xc = np.asarray(m.xc, float)
    ctx.true("centres", xc.shape == (n,) and np.array_equal(xc, (xf[:-1] + xf[1:]) / 2.0) and np.array_equal(np.asarray(m.centers()), xc), kind + "/centres-not-face-midpoints", None, cls=cls)
    vol = np.asarray(m.vol(), float)
    ctx.true("volumes", vol.shape == (n,) and np.all(vol > 0) and np.array_equal(vol, d), kind + "/volumes-not-positive-face-spacings", None, cls=cls)
    span = xf[-1] - xf[0]
    ctx.close("sum-vol", abs(np.sum(vol) - span) / span, 4 * n * EPS, kind + "/volumes-do-not-sum-to-length", {"sum": float(np.sum(vol)), "span": float(span)}, cls=cls)
    if "x0" in args:
        x0, L = args["x0"], args["length"]
        lo, hi = (x0, x0 + L) if "morph" not in args else (float(args["morph"](np.array([0.0 + x0]))[0]), float(args["morph"](np.array([L + x0]))[0]))
        tol = 2 * ulp(abs(x0) + abs(L)) + 2 * ulp(abs(hi))
        ctx.true("span", abs(xf[0] - lo) <= tol and abs(xf[-1] - hi) <= tol, kind + "/faces-do-not-span-the-domain", {"xf[0]": xf[0], "xf[-1]": xf[-1], "expected": [lo, hi]}, cls=cls)
    c = 3.7
    with probes.quiet():
        av = [m.average(np.full(n, c)), m.L1average(np.full(n, -c)), m.L2average(np.full(n, -c))]
    ctx.close("averages", max(abs(a - c) for a in av) / c, 1e-12, kind + "/average-not-exact-for-constants", {"averages of +-3.7": av}, cls=cls)
    if kind == "refinedmesh":
        a, b, ratio, nc = args["nratioa"], args["nratiob"], args["ratio"], n
        from fractions import Fraction
        prop = Fraction(nc) * Fraction(a) / (Fraction(a) + Fraction(b))       # exact value of the requested proportion (the floats as given)
        if prop.denominator == 1 and 1 <= prop <= nc - 1:
            n1 = int(prop)
            d1, d2 = d[:n1], d[n1:]
            u1 = (np.max(d1) - np.min(d1)) / np.mean(d1); u2 = (np.max(d2) - np.min(d2)) / np.mean(d2)
            # face positions carry a round-off of ulp(x): relative to the smallest cell that is eps*max|x|/dx_min (1e-9 for ratios of 1e6)
            rtol = 1e-11 + 8 * EPS * float(np.max(np.abs(xf))) / float(np.min(d))
            ctx.close("zones-uniform", max(u1, u2), rtol, "refinedmesh/zones-not-uniform", {"n1": n1, "spread1": u1, "spread2": u2}, cls="refined:integral-proportion")
            ctx.close("zone-ratio", abs(np.mean(d2) / np.mean(d1) / ratio - 1), rtol, "refinedmesh/cell-size-ratio-not-the-requested-ratio",
                      {"requested": ratio, "got": float(np.mean(d2) / np.mean(d1)), "n1": n1, "ncell": nc, "a": a, "b": b}, cls="refined:integral-proportion")
        else:
            ctx.ev("refined:other-proportion")


def judge2d(ctx, m, args):
    ctx = _KeyCtx(ctx)
    cls = "mesh:2d"
    # the sizes the CALLER asked for (constructor arguments), not what the object says about itself
    nx, ny, lx, ly = (args.get(k, getattr(m, k)) for k in ("nx", "ny", "lx", "ly"))
    ctx.true("attributes", (m.nx, m.ny) == (nx, ny) and float(m.lx) == float(lx) and float(m.ly) == float(ly), "mesh2d/attributes-not-the-constructor-arguments", {"asked": [nx, ny, lx, ly], "object": [m.nx, m.ny, m.lx, m.ly]}, cls=cls)
    n = nx * ny
    ctx.true("counts", m.ncell == n and m.nbfaces() == (nx + 1) * ny + nx * (ny + 1), "mesh2d/cell-or-face-count", {"ncell": m.ncell, "nbfaces": m.nbfaces()}, cls=cls)
    dx, dy = lx / nx, ly / ny
    vol = np.asarray(m.vol(), float)
    ctx.true("volumes", vol.shape == (n,) and np.all(np.abs(vol - dx * dy) <= 4 * EPS * dx * dy) and m.dx() == dx and m.dy() == dy, "mesh2d/volume-not-dx*dy", None, cls=cls)
    xx, yy = m.centers()
    ex = (np.tile(np.arange(nx), ny) + 0.5) * dx; ey = (np.repeat(np.arange(ny), nx) + 0.5) * dy
    ctx.close("centres", max(np.max(np.abs(xx - ex)) / lx, np.max(np.abs(yy - ey)) / ly), 8 * EPS, "mesh2d/centres", None, cls=cls)
    nxf = (nx + 1) * ny
    geo = {"left": np.arange(ny) * (nx + 1), "right": np.arange(ny) * (nx + 1) + nx, "bottom": nxf + np.arange(nx), "top": nxf + ny * nx + np.arange(nx)}
    tags = list(m.list_of_bctags())
    ctx.true("tags", sorted(tags) == sorted(geo), "mesh2d/boundary-tags", {"tags": tags}, cls=cls)
    allidx = []
    for t in geo:
        idx = np.asarray(m.index_of_bc(t))
        allidx.extend(idx.tolist())
        ctx.true("bc-faces", np.array_equal(idx, geo[t]), "mesh2d/index_of_bc/%s-not-the-boundary-faces-in-order" % t, {"got": idx, "expected": geo[t]}, cls=cls)
    ctx.true("disjoint", len(allidx) == len(set(allidx)) == 2 * (nx + ny), "mesh2d/boundary-face-sets-not-disjoint-or-incomplete", None, cls=cls)
    out = {"left": (-1.0, 0.0), "right": (1.0, 0.0), "bottom": (0.0, -1.0), "top": (0.0, 1.0)}
    # orientation against the real first-order reconstruction: a boundary face only has a cell on one side
    model = euler.euler2d()
    f = ffield.fdata(model, m, [np.arange(n) + 1.0, np.zeros((2, n)), np.ones(n)])
    with probes.quiet():
        L, R = xnum.extrapol2d1().interp_face(m, f.data, f, 3)
    for t in geo:
        nrm = np.asarray(m.normal_of_bc(t), float)
        nf = ny if t in ("left", "right") else nx
        ok = nrm.shape == (2, nf) and np.all(nrm[0] == out[t][0]) and np.all(nrm[1] == out[t][1])
        ctx.true("normals", ok, "mesh2d/normal_of_bc/%s-not-the-outward-unit-normal" % t, {"got": nrm[:, :2] if nrm.ndim == 2 else nrm}, cls=cls)
        idx = geo[t]
        hasL, hasR = L[0][idx] != 0, R[0][idx] != 0
        one_side = np.all(hasL != hasR)
        inward = m.bcface_orientation(t) == "inward"
        ctx.true("orientation", one_side and np.all(hasR == inward) and m.bcface_orientation(t) in ("inward", "outward"), "mesh2d/bcface_orientation/%s-inconsistent-with-face-ordering" % t,
                 {"orientation": m.bcface_orientation(t), "cell on right side": hasR[:3]}, cls=cls)
        # the cell adjacent to the face is the geometrically adjacent one
        cells = (L[0][idx] + R[0][idx] - 1).astype(int)
        exp = {"left": np.arange(ny) * nx, "right": np.arange(ny) * nx + nx - 1, "bottom": np.arange(nx), "top": (ny - 1) * nx + np.arange(nx)}[t]
        ctx.true("adjacency", np.array_equal(cells, exp), "mesh2d/boundary-face-adjacent-cell/%s" % t, {"got": cells, "expected": exp}, cls=cls)


def _ctor_before(args, kwargs):
    _depth["n"] += 1
    return _depth["n"]


def _ctor_after(args, kwargs, result, tok):
    _depth["n"] -= 1
    if tok != 1:
        return                   # nested base-class constructor: judge the finished object only
    m = args[0]
    ctx = CTX
    if isinstance(m, fmesh2d.mesh2d):
        a2 = {"lx": 1.0, "ly": 1.0}
        a2.update(dict(zip(["nx", "ny", "lx", "ly"], args[1:])))
        a2.update({k: v for k, v in kwargs.items() if k in ("nx", "ny", "lx", "ly")})
        judge2d(ctx, m, a2)
        return
    kind = type(m).__name__
    names = {"mesh1d": ["ncell", "length", "x0"], "unimesh": ["ncell", "length", "x0"], "refinedmesh": ["ncell", "length", "ratio", "nratioa", "nratiob"],
             "morphedmesh": ["ncell", "length", "x0", "morph"]}.get(kind)
    a = {}
    if names:
        defaults = {"ncell": 100, "length": 1.0, "x0": 0.0, "ratio": 2.0, "nratioa": 1, "nratiob": 1, "morph": (lambda x: x)}
        a = {k: defaults[k] for k in names}
        a.update(dict(zip(names, args[1:])))
        a.update({k: v for k, v in kwargs.items() if k in names})
    if kind == "refinedmesh":
        a["x0"] = 0.0
    judge1d(ctx, m, "mesh1d" if kind == "unimesh" else kind, a)


def install(ctx):
    global CTX
    CTX = ctx
    for c in (fmesh.mesh1d, fmesh.refinedmesh, fmesh.morphedmesh, fmesh2d.mesh2d):
        probes.hook(c, "__init__", before=_ctor_before, after=_ctor_after)


def setup(ctx):
    install(ctx)
    ctx.on_begin.append(lambda: _depth.__setitem__("n", 0))
    ctx.require("mesh:mesh1d", "mesh:refinedmesh", "mesh:morphedmesh", "mesh:2d", "refined:integral-proportion", "refined:other-proportion", "rejudged")


def teardown(ctx):
    for e in probes.errors():
        ctx.harness_error(e)


@group(quick=600, thorough=20000)
def uniform(ctx, rng, idx):
    n = int(rng.choice([1, 2, 3, int(rng.integers(1, 201))]))
    L = float(10 ** rng.uniform(-3, 3)); x0 = float(rng.choice([0.0, rng.uniform(-1, 1) * 10 ** rng.uniform(-3, 3)]))
    ctx.describe(kind="unimesh", ncell=n, length=L, x0=x0)
    cls1 = fmesh.unimesh if idx % 2 else fmesh.mesh1d
    form = int(rng.integers(5))          # keywords, positional, defaults for the omitted arguments, numpy / integer-typed arguments
    if form == 0:
        m = cls1(ncell=n, length=L, x0=x0)
    elif form == 1:
        m = cls1(n, L, x0)
    elif form == 2:
        x0 = 0.0
        m = cls1(n, length=L)
    elif form == 3:
        L, x0 = 1.0, 0.0
        m = cls1(ncell=n)
    else:
        L = float(int(L) + 1); x0 = float(int(x0))
        m = cls1(np.int64(n), int(L), int(x0))
    fmesh.mesh1d(ncell=n + 3, length=2 * L, x0=x0 - 1.0); fmesh.refinedmesh(ncell=max(2, n), length=3 * L)      # other meshes built afterwards
    rejudge(ctx, m, {"ncell": n, "length": L, "x0": x0})
    ctx.nontrivial("uni", n, L, x0)


@group(quick=600, thorough=20000)
def refined(ctx, rng, idx):
    ratio = float(rng.choice([0.1, 0.5, 2.0, 10.0, np.round(10 ** rng.uniform(-1, 1), 3)]))
    L = float(10 ** rng.uniform(-3, 3))
    if idx % 3 != 2:
        a, b = int(rng.integers(1, 6)), int(rng.integers(1, 6))
        n = (a + b) * int(rng.integers(1, 30)) if idx % 3 == 0 else int(rng.integers(1, 201))
    else:
        # real zone proportions; half of them chosen so that the exact proportion is a whole number of cells (a = b, b = 2a, 3a = b...)
        a = float(rng.choice([0.1, 0.2, 0.3, 0.5, 0.7, 1.5, 2.5, np.round(rng.uniform(0.2, 4), 2)]))
        if rng.random() < 0.5:
            k = int(rng.integers(1, 5)); b = a * k if rng.random() < 0.5 else a; a = a if b != a or rng.random() < 0.5 else a
            n = (1 + int(round(b / a))) * int(rng.integers(1, 60))
        else:
            b = float(np.round(rng.uniform(0.2, 4), 2)); n = int(rng.integers(2, 201))
    ctx.describe(kind="refinedmesh", ncell=n, length=L, ratio=ratio, nratioa=a, nratiob=b)
    m = fmesh.refinedmesh(ncell=n, length=L, ratio=ratio, nratioa=a, nratiob=b)
    fmesh.refinedmesh(ncell=n + 2, length=2 * L, ratio=1.0 / ratio, nratioa=b, nratiob=a); fmesh.unimesh(ncell=n, length=L)
    rejudge(ctx, m, {"ncell": n, "length": L, "ratio": ratio, "nratioa": a, "nratiob": b, "x0": 0.0})
    ctx.nontrivial("refined", n, L, ratio, a, b)


@group(quick=600, thorough=20000)
def morphed(ctx, rng, idx):
    n = int(rng.choice([1, 2, int(rng.integers(1, 201))]))
    L = float(10 ** rng.uniform(-2, 2)); x0 = float(rng.choice([0.0, np.round(rng.uniform(-5, 5), 3)]))
    k = idx % 5
    if k == 4:
        # a morphing that returns INTEGER-typed positions (faces at whole numbers of metres): squares or multiples of the face index
        o = int(rng.integers(-5, 6)); mlt = int(rng.integers(1, 4)); sq = bool(rng.random() < 0.5)
        def morph(x, n=n, L=L, x0=x0):
            j = np.rint((np.asarray(x, float) - x0) / L * n).astype(np.int64)
            return (j * j + mlt * j if sq else mlt * j) + o
        d = "integer-typed faces %s + %d" % ("j^2 + %d j" % mlt if sq else "%d j" % mlt, o)
    elif k == 0:
        s, o = float(rng.uniform(0.1, 10)), float(rng.uniform(-5, 5)); morph = lambda x: s * x + o; d = "affine %g x + %g" % (s, o)
    elif k == 1:
        a = float(rng.uniform(0, 0.95)); morph = lambda x: x + a * L / (2 * np.pi) * np.sin(2 * np.pi * (x - x0) / L); d = "sinusoidal a=%g" % a
    elif k == 2:
        a = float(rng.uniform(-2, 2)); morph = lambda x: np.exp(a * (x - x0) / L) * np.sign(a) if a != 0 else x; d = "exponential a=%g" % a
    else:
        w = rng.uniform(0.1, 1.0, n); xf = np.concatenate([[0.0], np.cumsum(w)]); xf *= L / xf[-1]; base = np.linspace(0, L, n + 1)
        morph = lambda x: np.interp(x - x0, base, xf) + x0; d = "piecewise"
    ctx.describe(kind="morphedmesh", ncell=n, length=L, x0=x0, morph=d)
    m = fmesh.morphedmesh(ncell=n, length=L, x0=x0, morph=morph)
    fmesh.morphedmesh(ncell=n + 1, length=2 * L, x0=0.0, morph=lambda x: 2 * x + 1.0)
    rejudge(ctx, m, {"ncell": n, "length": L, "x0": x0, "morph": morph})
    ctx.nontrivial("morphed", n, L, x0, d)


@group(quick=300, thorough=10000)
def cartesian(ctx, rng, idx):
    nx, ny = int(rng.integers(1, 13)), int(rng.integers(1, 13))
    lx, ly = float(10 ** rng.uniform(-3, 3)), float(10 ** rng.uniform(-3, 3))
    ctx.describe(kind="mesh2d", nx=nx, ny=ny, lx=lx, ly=ly)
    cls2 = fmesh2d.unimesh if idx % 2 else fmesh2d.mesh2d
    form = int(rng.integers(4))          # positional, keywords (any order), default lengths, numpy integers
    if form == 0:
        m = cls2(nx, ny, lx, ly)
    elif form == 1:
        m = cls2(ly=ly, ny=ny, lx=lx, nx=nx)
    elif form == 2:
        lx = ly = 1.0
        m = cls2(nx, ny)
    else:
        m = cls2(np.int64(nx), np.int32(ny), lx, ly)
    fmesh2d.mesh2d(ny + 1, nx + 2, ly * 2, lx); fmesh2d.unimesh(nx, ny + 1, lx, ly)        # other grids built afterwards
    rejudge(ctx, m, {"nx": nx, "ny": ny, "lx": lx, "ly": ly})
    ctx.nontrivial("2d", nx, ny, lx, ly)


@group(quick=200, thorough=3000)
def traffic(ctx, rng, idx):
    """meshes built by the other generators (every kind used by the workloads of the other checks)"""
    m, d = gen.mesh1d(rng, nmin=1, nmax=60, big=0.05)
    ctx.describe(**d)
    ctx.nontrivial(d)
