"""C13 reflection and change of units (1D): metamorphic twins executed through the same real code."""
import numpy as np

from .. import core, gen, probes
from ..core import group

REG_LIMS = ("muscl_vanalbada", "muscl_vanleer")     # carry dimensional regularisation constants 1e-20 / 1e-40


def setup(ctx):
    ctx.require("reflect:rhs", "reflect:solve-explicit", "reflect:solve-implicit", "units:rhs-bitwise", "units:solve-bitwise", "units:tolerance", "units:implicit")


# ------------------------------------------------------------------------------------------ twins
def odd_components(mname):
    """indices of primitive / conservative components that change sign under x -> -x"""
    return {"convection": [], "burgers": [0], "shallowwater": [1], "euler1d": [1], "nozzle": [1]}[mname]


def mirror_bc(bc, mname):
    d = dict(bc)
    if d["type"] == "dirichlet":
        pr = [np.array(v, float).copy() if np.ndim(v) else float(v) for v in d["prim"]]
        for i in odd_components(mname):
            pr[i] = -pr[i]
        d["prim"] = pr
    return d


def mirror(spec):
    sec = None
    if spec.section is not None:
        s0 = spec.section
        sec = lambda x: s0(-x)
    mp = dict(spec.mparams)
    if spec.mname == "convection":
        mp["convcoef"] = -mp["convcoef"]
    prim = [p[::-1].copy() for p in spec.prim]
    for i in odd_components(spec.mname):
        prim[i] = -prim[i]
    return gen.Spec(spec.mname, mp, -spec.faces[::-1], spec.rname, spec.flux, mirror_bc(spec.bcR, spec.mname), mirror_bc(spec.bcL, spec.mname), prim, section=sec)


def unmirror(data, mname):
    out = [np.asarray(d)[::-1].copy() for d in data]
    for i in odd_components(mname):
        out[i] = -out[i]
    return out


def scales(mname, a, b, l):
    """(primitive scales, conservative scales, residual scales, time scale)"""
    if mname == "convection":
        return [a], [a], [a * b / l], l / b
    if mname == "burgers":
        return [b], [b], [b * b / l], l / b
    if mname == "shallowwater":
        return [a, b], [a, a * b], [a * b / l, a * b * b / l], l / b
    return [a, b, a * b * b], [a, a * b, a * b * b], [a * b / l, a * b * b / l, a * b ** 3 / l], l / b


def rescale_bc(bc, mname, a, b, l):
    d = dict(bc)
    ps = scales(mname, a, b, l)[0]
    if d["type"] == "dirichlet":
        d["prim"] = [float(v) * s for v, s in zip(d["prim"], ps)]
    if "ptot" in d:
        d["ptot"] = d["ptot"] * a * b * b
    if "rttot" in d:
        d["rttot"] = d["rttot"] * b * b
    if "p" in d:
        d["p"] = d["p"] * a * b * b
    return d


def rescale(spec, a, b, l, sa=1.0):
    mp = dict(spec.mparams)
    if spec.mname == "convection":
        mp["convcoef"] = mp["convcoef"] * b
    if spec.mname == "shallowwater":
        mp["g"] = mp["g"] * b * b / a
    sec = None
    if spec.section is not None:
        s0 = spec.section
        sec = lambda x: sa * s0(x / l)          # sa: the units of the section area (only (dA/dx)/A enters the equations)
    ps = scales(spec.mname, a, b, l)[0]
    return gen.Spec(spec.mname, mp, spec.faces * l, spec.rname, spec.flux, rescale_bc(spec.bcL, spec.mname, a, b, l), rescale_bc(spec.bcR, spec.mname, a, b, l),
                    [p * s for p, s in zip(spec.prim, ps)], section=sec)


# ------------------------------------------------------------------------------------------ case generation
def _spec(rng, smooth_only=False, models=gen.MODELS1D, recons=gen.ALL_RECONS, nmax=16, big=0.0):
    section = None
    mname = str(rng.choice(models))
    if mname == "nozzle":
        aa, bb = float(np.round(rng.uniform(0.5, 2), 2)), float(np.round(rng.uniform(0.05, 0.4), 2))
        section = lambda x: aa * (1.0 + bb * np.cos(0.7 * x))
        section.desc = "%g*(1+%g*cos(0.7x))" % (aa, bb)
    bc = str(rng.choice(["per", "sym", "open", "open"]))
    ncell = None
    if big and rng.random() < big:      # a LARGE problem (several hundred unknowns): size-dependent code paths
        ncell = int(rng.integers(90, 131)) if smooth_only else int(rng.integers(257, 501))
    s = gen.scenario1d(rng, mname=mname, bc=bc, recons=recons, nmin=3, nmax=nmax, ncell=ncell, mach_max=1.5, ratio=5.0, section=section,
                       dkind="smooth" if smooth_only else None)
    if smooth_only and mname in ("euler1d", "nozzle", "shallowwater"):
        # implicit twins: the finite-difference Jacobian perturbs momentum by sqrt(eps)*mean|rho u|, which is pure noise at
        # very low Mach numbers; keep the mean Mach/Froude number above 0.1 so that the 1e-5 tolerance is meaningful
        c = np.sqrt(s.model.gamma * s.prim[2] / s.prim[0]) if mname != "shallowwater" else np.sqrt(s.model.g * s.prim[0])
        if np.mean(np.abs(s.prim[1])) < 0.1 * np.mean(c):
            s.prim[1] = s.prim[1] + 0.3 * np.mean(c) * float(rng.choice([-1, 1]))
    return gen.spec_from_scn(s, section=section), s


def _fluxscale(mname, model, prim):
    if mname == "convection":
        return [abs(model.convcoef) * (np.max(np.abs(prim[0])) + 1e-300)]
    if mname == "burgers":
        return [np.max(prim[0] ** 2) + 1e-300]
    if mname == "shallowwater":
        s = np.max(np.abs(prim[1]) + np.sqrt(model.g * prim[0])); h = np.max(prim[0])
        return [h * s, h * s * s]
    s = np.max(np.abs(prim[1]) + np.sqrt(model.gamma * prim[2] / prim[0])); r = np.max(prim[0])
    return [r * s, r * s * s, r * s ** 3]


def _finite(data):
    return all(np.all(np.isfinite(d)) for d in data)


def _amplification(spec, iname, cfl, nstep, rng, dirs=None):
    """Lipschitz constant of the solve map measured on the real code: the same problem with its initial data perturbed by
    1e-9 relative.  Unstable configurations (centred flux without dissipation, large-CFL nonlinear implicit runs) amplify any
    round-off difference between twins by this factor, which is not a symmetry defect."""
    model, mesh, disc, f = spec.build()
    g = f.copy()
    for q in g.data:
        q *= 1.0 + 1e-9 * rng.uniform(-1, 1, q.shape)
    with probes.quiet():
        try:
            e1 = gen.integ(iname)(mesh, disc).solve(f, cfl, stop={"maxit": nstep}, directives=dict(dirs or {}))[-1]
            e2 = gen.integ(iname)(mesh, disc).solve(g, cfl, stop={"maxit": nstep}, directives=dict(dirs or {}))[-1]
        except np.linalg.LinAlgError:
            return float("inf")
    amp = 0.0
    for x, y, q0 in zip(e1.data, e2.data, f.data):
        sc = max(np.max(np.abs(q0)), np.max(np.abs(x))) + 1e-300
        d = np.max(np.abs(x - y)) / sc
        amp = max(amp, d / 1e-9 if np.isfinite(d) else float("inf"))
    return amp


def _at_a_kink(disc, f):
    """is the start state within one finite-difference step of a KINK of the space operator (a tie in a max / min / minmod: equal and
    opposite velocities next to equal depths make |uL|+cL == |uR|+cR in the Rusanov speed)?  There the operator has two one-sided
    derivatives; the library differences forwards, and "forwards" in the mirror image is "backwards" in the original, so the two
    linearised implicit steps legitimately differ (thorough-tier witness: Jacobian entries 15 % apart).  Decided by comparing the
    forward with the backward difference quotient, same step as the library's"""
    try:
        with probes.quiet(), np.errstate(all="ignore"):
            r0 = [np.array(x, float) for x in disc.rhs(f)]
            worst, big = 0.0, 0.0
            for q in range(len(f.data)):
                e = float(np.sqrt(np.finfo(float).eps) * (np.sum(np.abs(f.data[q])) / f.data[q].size or 1.0))
                for i in range(f.data[q].size):
                    cols = []
                    for sg in (1.0, -1.0):
                        g = f.copy(); g.data[q][i] += sg * e
                        cols.append(np.concatenate([(np.array(x, float) - y) / (sg * e) for x, y in zip(disc.rhs(g), r0)]))
                    worst = max(worst, float(np.max(np.abs(cols[0] - cols[1])))); big = max(big, float(np.max(np.abs(cols[0]))))
        return bool(worst > 1e-3 * big)
    except Exception:
        return False


def _judge_twin(ctx, name, err, tol, key, detail, cls, lazy_amp, kink=None):
    """close() with a lazily measured amplification factor: a failure is only reported when the error exceeds
    tol x (measured sensitivity of the solve to 1e-9 perturbations); sensitivities above 1e4 are inconclusive (skipped)"""
    if err <= tol:
        return ctx.close(name, err, tol, key, detail, cls=cls)
    if kink is not None and kink():
        ctx.skip("implicit:start-state-at-a-kink-of-the-operator(one-sided-derivatives-differ)")
        return True
    amp = lazy_amp()
    if not amp <= 1e4:
        ctx.skip("twin:unstable-configuration(amplification>1e4)")
        return True
    if amp > 1.0:
        ctx.info["twins_judged_with_measured_amplification"] = ctx.info.get("twins_judged_with_measured_amplification", 0) + 1
    return ctx.close(name, err / max(1.0, amp), tol, key, dict(detail or {}, amplification=amp), cls=cls)


def _implicit_tol(solver, disc, fend, cfl, iname, nstep):
    """tolerance for implicit twins: the real integrators solve with a sqrt(eps) finite-difference Jacobian (relative noise
    ~1e-7), which a linear solve amplifies by the condition number of the system matrix of the (last) step"""
    base = 3e-5 * max(1.0, cfl)
    try:
        with probes.quiet():
            dt = float(np.min(disc.calc_timestep(fend, cfl)))
        theta = {"implicit": 1.0, "backwardeuler": 1.0, "gear": 1.0}.get(iname, 0.5)
        xi = 0.5 if iname == "gear" else 0.0
        M = (1 + xi) / dt * np.eye(solver.jacobian.shape[0]) - theta * solver.jacobian
        cond = float(np.linalg.cond(M))
    except Exception:
        return base, float("nan")
    return base + 1e-6 * cond * nstep, cond


@group(quick=1200, thorough=40000)
def reflection(ctx, rng, idx):
    iname = gen.ALL_INTEG[idx % len(gen.ALL_INTEG)]
    implicit = iname in gen.IMPLICIT
    spec, s = _spec(rng, smooth_only=implicit, nmax=10 if implicit else 16, big=0.02)
    tw = mirror(spec)
    model, mesh, disc, f = spec.build()
    # half of the twins REUSE the scheme object (and the model object when its parameters are the same) of the original problem
    share = bool(rng.random() < 0.5)
    model2, mesh2, disc2, f2 = tw.build(num=disc.num if share else None, model=model if (share and spec.mname in ("euler1d", "shallowwater", "burgers")) else None)
    cfl = float(rng.uniform(0.1, 0.4) if not implicit else rng.uniform(0.2, 1.5))
    nstep = int(rng.integers(1, 9 if not implicit else 4))
    dirs = {"dtlocal": True} if rng.random() < 0.25 else {}        # a quarter of the twins run with one time step per cell
    if dirs:
        # ... when the cell time steps are of comparable size: a Burgers cell with u ~ 0 gets a step thousands of times longer than its
        # neighbours, the run blows up and round-off differences between twins are amplified without bound (thorough-tier witness)
        with probes.quiet():
            dtc_ = np.asarray(disc.calc_timestep(f, 1.0), float)
        if not (np.all(np.isfinite(dtc_)) and np.max(dtc_) <= 30.0 * np.min(dtc_)):
            dirs = {}
        # ... and not for Burgers data that change sign: with local steps the sonic faces (uL + uR ~ 0, where the upwind flux switches sides)
        # turn an ulp of difference between the twins into an O(1) one, which no finite perturbation measures (thorough-tier witness)
        if spec.mname == "burgers" and np.min(spec.prim[0]) < 0.0 < np.max(spec.prim[0]):
            dirs = {}
    ctx.describe(integrator=iname, cfl=cfl, nstep=nstep, directives=dirs, scheme_object_shared_with_twin=share, **spec.desc())
    r1 = disc.rhs(f); r2 = unmirror(disc2.rhs(f2), spec.mname)
    if not (_finite(r1) and _finite(r2)):
        raise core.Skip("nonfinite rhs")       # reconstructed face states left the admissible set (possibly in one twin only, by round-off)
    if not (gen.faces_admissible(disc, spec.mname) and gen.faces_admissible(disc2, spec.mname)):
        raise core.Skip("reconstructed face states not admissible")
    fs = _fluxscale(spec.mname, model, spec.prim)
    # unlimited reconstructions of rough data can produce extreme face states (tiny density => huge enthalpy flux): the round-off of the
    # residual is relative to the face fluxes actually formed, not only to the cell-state scale
    fs = [max(a, float(np.max(np.abs(np.asarray(disc.flux[i], float))))) for i, a in enumerate(fs)]
    dxmin = float(np.min(mesh.vol()))
    geo_tol = 64 * np.finfo(float).eps * float(np.max(np.abs(mesh.xf))) / dxmin
    tag = "%s/%s" % (spec.mname, spec.flux)
    for i in range(model.neq):
        # centre positions, hence the centre-to-face and seam distances of a thin cell, carry a round-off of ulp(x)/dx_min that differs
        # between a mesh and its mirror image (thorough-tier witnesses: cells 1e-7...1e-9 wide)
        ctx.close("reflect:rhs", np.max(np.abs(r1[i] - r2[i])) * dxmin / fs[i], 1e-11 + geo_tol, "reflection/rhs-not-mirror-image/%s/bc-%s-%s" % (tag, spec.bcL["type"], spec.bcR["type"]),
                  {"eq": i, "max diff": np.max(np.abs(r1[i] - r2[i]))}, cls="reflect:rhs")
    # solve
    try:
        S1 = gen.integ(iname)(mesh, disc)
        e1 = S1.solve(f, cfl, stop={"maxit": nstep}, directives=dict(dirs))[-1]
        S2u = gen.integ(iname)(mesh2, disc2)
        e2 = S2u.solve(f2, cfl, stop={"maxit": nstep}, directives=dict(dirs))[-1]
    except np.linalg.LinAlgError:
        raise core.Skip("singular")
    d2 = unmirror(e2.data, spec.mname)
    if not (_finite(e1.data) and _finite(d2)):
        raise core.Skip("nonfinite solve")
    cls = "reflect:solve-implicit" if implicit else "reflect:solve-explicit"
    tol = 1e-9 + geo_tol * nstep
    _cache = {}
    def _amp():
        if "a" not in _cache:
            _cache["a"] = _amplification(spec, iname, cfl, nstep, rng, dirs)
        return _cache["a"]
    if implicit:
        tol, cond = _implicit_tol(S1, disc, e1, cfl, iname, nstep)
        # (on strongly stretched meshes the code's finite-difference Jacobian carries O(sqrt(eps)/dx_min) noise, known finding D20 of C06,
        # which differs between the twins)
        tol = tol + geo_tol * nstep + (np.sqrt(np.finfo(float).eps) * float(np.max(mesh.vol())) / dxmin * 1e-3 if float(np.max(mesh.vol())) / dxmin > 1e3 else 0.0)
        if not tol < 1e-3:
            ctx.skip("implicit:ill-conditioned-system")
            return
    _judge_twin(ctx, cls + ":time", abs(e1.time - e2.time) / (abs(e1.time) + 1e-300), tol, "reflection/solve-time-differs", {"t": e1.time, "t mirror": e2.time}, cls, _amp)
    for i in range(model.neq):
        sc = max(np.max(np.abs(f.data[i])), np.max(np.abs(e1.data[i]))) + 1e-300
        if i in odd_components(spec.mname):      # momentum-like: scale by density * wave speed
            sc = max(sc, np.max(np.abs(f.data[0])) * (fs[1] / fs[0] if len(fs) > 1 else 1.0))
        _judge_twin(ctx, cls, np.max(np.abs(e1.data[i] - d2[i])) / sc, tol, "reflection/solve-not-mirror-image/%s/%s" % ("implicit" if implicit else "explicit", tag),
                    {"eq": i, "integrator": iname, "max diff": np.max(np.abs(e1.data[i] - d2[i]))}, cls, lambda: _amp(),
                    kink=(lambda: _at_a_kink(disc, f)) if implicit else None)
    ctx.info.setdefault("bc_types", {})
    for t in (spec.bcL["type"], spec.bcR["type"]):
        ctx.info["bc_types"][t] = ctx.info["bc_types"].get(t, 0) + 1
    ctx.nontrivial("reflect", iname, cfl, nstep, spec.desc())


@group(quick=1200, thorough=40000)
def units(ctx, rng, idx):
    iname = gen.ALL_INTEG[idx % len(gen.ALL_INTEG)]
    implicit = iname in gen.IMPLICIT
    spec, s = _spec(rng, smooth_only=implicit, nmax=10 if implicit else 16)
    reg = spec.rname in REG_LIMS
    general = (idx // len(gen.ALL_INTEG)) % 4 == 3        # arbitrary (non power-of-two) factors: rescaled to round-off, not bit for bit
    if reg:   # only scale gradients up (DESIGN 3/C13): a, b >= 1 and l <= 1
        a, b, l = 2.0 ** int(rng.integers(0, 12)), 2.0 ** int(rng.integers(0, 12)), 2.0 ** -int(rng.integers(0, 12))
    elif general:
        a, b, l = (float(10 ** rng.uniform(-3, 3)) for _ in range(3))
    else:
        a, b, l = (2.0 ** int(rng.integers(-20, 21)) for _ in range(3))
    sa = 1.0
    if spec.section is not None and rng.random() < 0.7:
        sa = float(10 ** rng.uniform(-9, 9)) if general else 2.0 ** int(rng.integers(-30, 31))
    tw = rescale(spec, a, b, l, sa)
    model, mesh, disc, f = spec.build()
    share = bool(rng.random() < 0.5)
    model2, mesh2, disc2, f2 = tw.build(num=disc.num if share else None, model=model if (share and spec.mname in ("euler1d", "burgers")) else None)
    ps, qs, rs, ts = scales(spec.mname, a, b, l)
    cfl = float(rng.uniform(0.1, 0.4) if not implicit else rng.uniform(0.2, 1.5))
    nstep = int(rng.integers(1, 9 if not implicit else 4))
    dirs = {"dtlocal": True} if rng.random() < 0.25 else {}        # a quarter of the twins run with one time step per cell
    if dirs:
        # ... when the cell time steps are of comparable size: a Burgers cell with u ~ 0 gets a step thousands of times longer than its
        # neighbours, the run blows up and round-off differences between twins are amplified without bound (thorough-tier witness)
        with probes.quiet():
            dtc_ = np.asarray(disc.calc_timestep(f, 1.0), float)
        if not (np.all(np.isfinite(dtc_)) and np.max(dtc_) <= 30.0 * np.min(dtc_)):
            dirs = {}
        # ... and not for Burgers data that change sign: with local steps the sonic faces (uL + uR ~ 0, where the upwind flux switches sides)
        # turn an ulp of difference between the twins into an O(1) one, which no finite perturbation measures (thorough-tier witness)
        if spec.mname == "burgers" and np.min(spec.prim[0]) < 0.0 < np.max(spec.prim[0]):
            dirs = {}
    ctx.describe(integrator=iname, cfl=cfl, nstep=nstep, scale_density=a, scale_velocity=b, scale_length=l, scale_section_area=sa, directives=dirs, **spec.desc())
    r1 = disc.rhs(f); r2 = [x / sc for x, sc in zip(disc2.rhs(f2), rs)]
    if not (_finite(r1) and _finite(r2)):
        raise core.Skip("nonfinite rhs")
    # python / numpy-scalar `x**2` goes through libm pow, which is not exactly scale covariant in ~1e-5 of the cases: Burgers' flux and
    # the boundary conditions that square a scalar (insub_cbc, outsub_qtot; 1D boundary states are scalars) are compared with a tolerance
    scalar_pow = any(b["type"] in ("insub_cbc", "outsub_qtot") for b in (spec.bcL, spec.bcR))
    bitwise = spec.mname in ("convection", "shallowwater", "euler1d", "nozzle") and not reg and not scalar_pow and not general
    fs = _fluxscale(spec.mname, model, spec.prim)
    fs = [max(a_, float(np.max(np.abs(np.asarray(disc.flux[i], float))))) for i, a_ in enumerate(fs)]
    dxmin = float(np.min(mesh.vol()))
    tag = "%s/%s" % (spec.mname, spec.flux)
    bkey = "bc-%s-%s" % (spec.bcL["type"], spec.bcR["type"])
    if bitwise:
        same = all(np.array_equal(x, y) for x, y in zip(r1, r2))
        ctx.true("units:rhs-bitwise", same, "units/rhs-not-bit-identical/%s/%s" % (tag, bkey),
                 {"max rel diff": max(np.max(np.abs(x - y)) * dxmin / sc for x, y, sc in zip(r1, r2, fs)), "scales": [a, b, l]}, cls="units:rhs-bitwise")
        ctx.info["bitwise_rhs_twins"] = ctx.info.get("bitwise_rhs_twins", 0) + 1
    else:
        for i in range(model.neq):
            # arbitrary (non power-of-two) length factors round every face position anew: the width of a thin cell changes by ulp(x)/dx_min
            ctx.close("units:rhs-tol", np.max(np.abs(r1[i] - r2[i])) * dxmin / fs[i], (1e-8 if reg else 1e-10) + 16 * np.finfo(float).eps * float(np.max(np.abs(mesh.xf))) / dxmin, "units/rhs-not-rescaled/%s/%s" % (tag, bkey),
                      {"eq": i, "scales": [a, b, l]}, cls="units:tolerance")
    try:
        S1 = gen.integ(iname)(mesh, disc)
        e1 = S1.solve(f, cfl, stop={"maxit": nstep}, directives=dict(dirs))[-1]
        S2u = gen.integ(iname)(mesh2, disc2)
        e2 = S2u.solve(f2, cfl, stop={"maxit": nstep}, directives=dict(dirs))[-1]
    except np.linalg.LinAlgError:
        raise core.Skip("singular")
    d2 = [x / sc for x, sc in zip(e2.data, qs)]
    t2 = e2.time / ts
    if not (_finite(e1.data) and _finite(d2)):
        raise core.Skip("nonfinite solve")
    if implicit:
        itol, cond = _implicit_tol(S1, disc, e1, cfl, iname, nstep)
        # ... and of the TWIN's system: in other units the rows of the same matrix are 1 : 1e5 : 1e11 apart (velocity unit 2^20), and it is
        # that matrix the rescaled run factorises (thorough-tier witness, seed 10)
        itol2, cond2 = _implicit_tol(S2u, disc2, e2, cfl, iname, nstep)
        itol = max(itol, itol2) if np.isfinite(itol2) else itol
        if not itol < 1e-3:
            ctx.skip("implicit:ill-conditioned-system")
            return
    _cache = {}
    def _amp():
        if "a" not in _cache:
            _cache["a"] = _amplification(spec, iname, cfl, nstep, rng, dirs)
        return _cache["a"]
    if bitwise and not implicit:
        same = e1.time == t2 and all(np.array_equal(x, y) for x, y in zip(e1.data, d2))
        ctx.true("units:solve-bitwise", same, "units/solve-not-bit-identical/%s/%s" % (tag, bkey),
                 {"integrator": iname, "dtime": t2 - e1.time, "max diff": max(np.max(np.abs(x - y)) for x, y in zip(e1.data, d2)), "scales": [a, b, l]}, cls="units:solve-bitwise")
        ctx.info["bitwise_solve_twins"] = ctx.info.get("bitwise_solve_twins", 0) + 1
    else:
        cls = "units:implicit" if implicit else "units:tolerance"
        tol = itol if implicit else (1e-7 if reg else 1e-10)
        tol = tol + 16 * np.finfo(float).eps * float(np.max(np.abs(mesh.xf))) / dxmin * nstep      # re-rounded face positions (thin cells), see above
        _judge_twin(ctx, cls + ":time", abs(e1.time - t2) / (abs(e1.time) + 1e-300), tol, "units/solve-time-not-rescaled", {"t": e1.time, "t twin / scale": t2}, cls, _amp)
        for i in range(model.neq):
            sc = max(np.max(np.abs(f.data[i])), np.max(np.abs(e1.data[i]))) + 1e-300
            if i in odd_components(spec.mname):
                sc = max(sc, np.max(np.abs(f.data[0])) * (fs[1] / fs[0] if len(fs) > 1 else 1.0))
            _judge_twin(ctx, cls, np.max(np.abs(e1.data[i] - d2[i])) / sc, tol, "units/solve-not-rescaled/%s/%s" % ("implicit" if implicit else "explicit", tag),
                        {"eq": i, "integrator": iname, "scales": [a, b, l]}, cls, _amp)
    ctx.nontrivial("units", iname, cfl, nstep, a, b, l, spec.desc())
