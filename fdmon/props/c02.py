"""C02 numerical fluxes: consistent, mirror-symmetric, upwind.  Online metamorphic monitor on every numflux dispatch."""
import numpy as np

import flowdyn.modelphy.convection as conv
import flowdyn.modelphy.burgers as burgers
import flowdyn.modelphy.euler as euler
import flowdyn.modelphy.shallowwater as shw

from .. import core, gen, probes, refs
from ..core import group
from . import c01

CTX = None
TOL = 1e-11      # measured worst on the unchanged tree: see evidence (round-off, ~1e-15)
UPWIND = {"convection": {None}, "burgers": {None}, "shallowwater": {"hll"}, "euler": {"hlle", "hllc"}}


def _regimes(ctx, fname, name, n=1):
    d = ctx.info.setdefault("regimes", {})
    k = "%s:%s" % (fname, name)
    d[k] = d.get(k, 0) + int(n)


def _cmp(ctx, fname, what, got, exp, scale, mask, key, extra=None):
    """compare got/exp on the faces selected by mask, normalised by scale"""
    if not np.any(mask):
        return
    got, exp, scale = np.broadcast_arrays(np.asarray(got, float), np.asarray(exp, float), np.asarray(scale, float))
    ok = mask & np.isfinite(exp) & np.isfinite(scale) & (scale > 0)
    if not np.any(ok):
        return
    err = np.abs(got[ok] - exp[ok]) / scale[ok]
    err = np.where(np.isnan(err), np.inf, err)
    _regimes(ctx, fname, what, np.sum(ok))
    j = int(np.argmax(err))
    ctx.close("%s:%s" % (fname, what), err[j], TOL, "%s/%s" % (fname, key),
              {"got": got[ok][j], "expected": exp[ok][j], "scale": scale[ok][j], **(extra(np.flatnonzero(ok)[j]) if extra else {})},
              cls="%s:%s" % (fname, what))


def mon_convection(args, kwargs, result, tok):
    ctx = CTX
    if not probes.take("numflux"):
        ctx.skip("numflux:not-sampled")
        return
    model, name, pL, pR = args[0], args[1], args[2], args[3]
    a = model.convcoef
    L, R = np.atleast_1d(np.asarray(pL[0], float)), np.atleast_1d(np.asarray(pR[0], float))
    F = np.atleast_1d(np.asarray(result[0], float))
    scale = abs(a) * np.maximum(np.abs(L), np.abs(R)) + 1e-300
    ex = lambda j: {"a": a, "L": L[j], "R": R[j]}
    fin = np.isfinite(L) & np.isfinite(R)
    _cmp(ctx, "convection", "consistency", F, a * L, scale, fin & (L == R), "inconsistent", ex)
    _cmp(ctx, "convection", "upwind", F, a * np.where(a > 0, L, R), scale, fin & (a != 0), "not-upwind", ex)
    Fm = conv.model(-a).numflux(name, [R.copy()], [L.copy()])[0]
    _cmp(ctx, "convection", "mirror", Fm, -F, scale, fin & (L != R), "mirror-asymmetric", ex)


def mon_burgers(args, kwargs, result, tok):
    ctx = CTX
    if not probes.take("numflux"):
        ctx.skip("numflux:not-sampled")
        return
    model, name, pL, pR = args[0], args[1], args[2], args[3]
    L, R = np.atleast_1d(np.asarray(pL[0], float)), np.atleast_1d(np.asarray(pR[0], float))
    F = np.atleast_1d(np.asarray(result[0], float))
    scale = np.maximum(L * L, R * R) + 1e-300
    ex = lambda j: {"uL": L[j], "uR": R[j]}
    fin = np.isfinite(L) & np.isfinite(R)
    _cmp(ctx, "burgers", "consistency", F, 0.5 * L * L, scale, fin & (L == R), "inconsistent", ex)
    roe = 0.5 * (L + R)
    _cmp(ctx, "burgers", "upwind", F, 0.5 * L * L, scale, fin & (L > 0) & (R > 0) & (roe > 0), "not-upwind-right", ex)
    _cmp(ctx, "burgers", "upwind", F, 0.5 * R * R, scale, fin & (L < 0) & (R < 0) & (roe < 0), "not-upwind-left", ex)
    Fm = model.numflux(name, [-R], [-L])[0]
    _cmp(ctx, "burgers", "mirror", Fm, F, scale, fin & (L != R), "mirror-asymmetric", ex)


def mon_sw(args, kwargs, result, tok):
    ctx = CTX
    if not probes.take("numflux"):
        ctx.skip("numflux:not-sampled")
        return
    model, name, pL, pR = args[0], args[1], args[2], args[3]
    name = "rusanov" if name is None else name
    fname = "sw-" + ("centered" if name == "centeredflux" else name)
    g = model.g
    hL, uL, hR, uR = (np.atleast_1d(np.asarray(x, float)) for x in (pL[0], pL[1], pR[0], pR[1]))
    F = [np.atleast_1d(np.asarray(f, float)) for f in result]
    adm = (hL > 0) & (hR > 0) & np.isfinite(hL + uL + hR + uR)
    cL, cR = np.sqrt(g * np.abs(hL)), np.sqrt(g * np.abs(hR))
    hm = np.maximum(hL, hR); sm = np.maximum(np.abs(uL) + cL, np.abs(uR) + cR)
    scales = [hm * sm + 1e-300, hm * sm * sm + 1e-300]
    ex = lambda j: {"g": g, "L": [hL[j], uL[j]], "R": [hR[j], uR[j]]}
    FL, FR = refs.flux_sw(hL, uL, g), refs.flux_sw(hR, uR, g)
    eq = adm & (hL == hR) & (uL == uR)
    for i in range(2):
        _cmp(ctx, fname, "consistency", F[i], FL[i], scales[i], eq, "inconsistent/eq%d" % i, ex)
    if name in UPWIND["shallowwater"]:
        ur, cr = refs.roe_sw(hL, uL, hR, uR, g)
        right = adm & (uL - cL > 0) & (uR - cR > 0) & (ur - cr > 0)
        left = adm & (uL + cL < 0) & (uR + cR < 0) & (ur + cr < 0)
        for i in range(2):
            _cmp(ctx, fname, "upwind", F[i], FL[i], scales[i], right, "not-upwind-right/eq%d" % i, ex)
            _cmp(ctx, fname, "upwind", F[i], FR[i], scales[i], left, "not-upwind-left/eq%d" % i, ex)
    Fm = model.numflux(args[1], [hR.copy(), -uR], [hL.copy(), -uL])
    neq = adm & ~eq
    _cmp(ctx, fname, "mirror", Fm[0], -F[0], scales[0], neq, "mirror-asymmetric/eq0", ex)
    _cmp(ctx, fname, "mirror", Fm[1], F[1], scales[1], neq, "mirror-asymmetric/eq1", ex)


def mon_euler(args, kwargs, result, tok):
    ctx = CTX
    if not probes.take("numflux"):
        ctx.skip("numflux:not-sampled")
        return
    model, name, pL, pR = args[0], args[1], args[2], args[3]
    dirv = args[4] if len(args) > 4 else kwargs.get("dir")
    name = "hllc" if name is None else name
    name = "centered" if name == "centeredflux" else name
    gam = model.gamma
    rhoL, pl, rhoR, pr = (np.atleast_1d(np.asarray(x, float)) for x in (pL[0], pL[2], pR[0], pR[2]))
    two_d = np.ndim(pL[1]) == 2
    if two_d:
        fname = "euler2d-" + name
        nrm = np.asarray(dirv, float)
        VL, VR = np.asarray(pL[1], float), np.asarray(pR[1], float)
        unL, unR = VL[0] * nrm[0] + VL[1] * nrm[1], VR[0] * nrm[0] + VR[1] * nrm[1]
        vmL, vmR = np.sqrt(VL[0] ** 2 + VL[1] ** 2), np.sqrt(VR[0] ** 2 + VR[1] ** 2)
    else:
        fname = "euler-" + name
        unL, unR = (np.atleast_1d(np.asarray(x, float)) for x in (pL[1], pR[1]))
        vmL, vmR = np.abs(unL), np.abs(unR)
    adm = (rhoL > 0) & (pl > 0) & (rhoR > 0) & (pr > 0) & np.isfinite(rhoL + pl + rhoR + pr + unL + unR + vmL + vmR)
    cL, cR = np.sqrt(gam * np.abs(pl / rhoL)), np.sqrt(gam * np.abs(pr / rhoR))
    rm = np.maximum(rhoL, rhoR); sm = np.maximum(vmL + cL, vmR + cR)
    sc = [rm * sm + 1e-300, rm * sm ** 2 + 1e-300, rm * sm ** 3 + 1e-300]
    if two_d:
        FL, FR = refs.flux_euler2d(rhoL, VL, pl, gam, nrm), refs.flux_euler2d(rhoR, VR, pr, gam, nrm)
        eq = adm & (rhoL == rhoR) & (pl == pr) & np.all(VL == VR, axis=0)
        ex = lambda j: {"gamma": gam, "dir": nrm[:, j], "L": [rhoL[j], VL[:, j], pl[j]], "R": [rhoR[j], VR[:, j], pr[j]]}
        F = [np.asarray(result[0], float), np.asarray(result[1], float), np.asarray(result[2], float)]
        comp = [(F[0], FL[0], FR[0], sc[0], "mass"), (F[1][0], FL[1][0], FR[1][0], sc[1], "momx"),
                (F[1][1], FL[1][1], FR[1][1], sc[1], "momy"), (F[2], FL[2], FR[2], sc[2], "energy")]
    else:
        FL, FR = refs.flux_euler(rhoL, unL, pl, gam), refs.flux_euler(rhoR, unR, pr, gam)
        eq = adm & (rhoL == rhoR) & (pl == pr) & (unL == unR)
        ex = lambda j: {"gamma": gam, "L": [rhoL[j], unL[j], pl[j]], "R": [rhoR[j], unR[j], pr[j]]}
        F = [np.atleast_1d(np.asarray(f, float)) for f in result]
        comp = [(F[0], FL[0], FR[0], sc[0], "mass"), (F[1], FL[1], FR[1], sc[1], "mom"), (F[2], FL[2], FR[2], sc[2], "energy")]
    for f, fl, fr, s, nm in comp:
        _cmp(ctx, fname, "consistency", f, fl, s, eq, "inconsistent/" + nm, ex)
    if name in UPWIND["euler"]:
        if two_d:   # Roe average with the full velocity vector
            wl, wr = np.sqrt(rhoL), np.sqrt(rhoR)
            HL = gam / (gam - 1) * pl / rhoL + 0.5 * vmL ** 2; HR = gam / (gam - 1) * pr / rhoR + 0.5 * vmR ** 2
            Vr = (wl * VL + wr * VR) / (wl + wr); Hr = (wl * HL + wr * HR) / (wl + wr)
            ur = Vr[0] * nrm[0] + Vr[1] * nrm[1]
            cr = np.sqrt(np.maximum((gam - 1) * (Hr - 0.5 * (Vr[0] ** 2 + Vr[1] ** 2)), 0))
        else:
            ur, cr = refs.roe_euler(rhoL, unL, pl, rhoR, unR, pr, gam)
        right = adm & (unL - cL > 0) & (unR - cR > 0) & (ur - cr > 0)
        left = adm & (unL + cL < 0) & (unR + cR < 0) & (ur + cr < 0)
        for f, fl, fr, s, nm in comp:
            _cmp(ctx, fname, "upwind", f, fl, s, right, "not-upwind-right/" + nm, ex)
            _cmp(ctx, fname, "upwind", f, fr, s, left, "not-upwind-left/" + nm, ex)
    # mirror image: swap the states and reverse the normal velocity, same face normal
    neq = adm & ~eq
    if two_d:
        refl = lambda V: V - 2.0 * (V[0] * nrm[0] + V[1] * nrm[1]) * nrm
        Fm = model.numflux(args[1], [rhoR.copy(), refl(VR), pr.copy()], [rhoL.copy(), refl(VL), pl.copy()], dirv)
        Fm1 = np.asarray(Fm[1], float)
        # momentum flux vector: normal component unchanged, tangential component changes sign
        fn = F[1][0] * nrm[0] + F[1][1] * nrm[1]; ft = -F[1][0] * nrm[1] + F[1][1] * nrm[0]
        fmn = Fm1[0] * nrm[0] + Fm1[1] * nrm[1]; fmt = -Fm1[0] * nrm[1] + Fm1[1] * nrm[0]
        _cmp(ctx, fname, "mirror", Fm[0], -F[0], sc[0], neq, "mirror-asymmetric/mass", ex)
        _cmp(ctx, fname, "mirror", fmn, fn, sc[1], neq, "mirror-asymmetric/mom-normal", ex)
        _cmp(ctx, fname, "mirror", fmt, -ft, sc[1], neq, "mirror-asymmetric/mom-tangential", ex)
        _cmp(ctx, fname, "mirror", Fm[2], -F[2], sc[2], neq, "mirror-asymmetric/energy", ex)
    else:
        Fm = model.numflux(args[1], [rhoR.copy(), -unR, pr.copy()], [rhoL.copy(), -unL, pl.copy()], dirv)
        _cmp(ctx, fname, "mirror", Fm[0], -F[0], sc[0], neq, "mirror-asymmetric/mass", ex)
        _cmp(ctx, fname, "mirror", Fm[1], F[1], sc[1], neq, "mirror-asymmetric/mom", ex)
        _cmp(ctx, fname, "mirror", Fm[2], -F[2], sc[2], neq, "mirror-asymmetric/energy", ex)


def install(ctx):
    global CTX
    CTX = ctx
    probes.hook(conv.model, "numflux", after=mon_convection)
    probes.hook(burgers.model, "numflux", after=mon_burgers)
    probes.hook(shw.shallowwater1d, "numflux", after=mon_sw)
    probes.hook(euler.euler, "numflux", after=mon_euler)


def setup(ctx):
    install(ctx)
    req = []
    for f in ("convection", "burgers"):
        req += [f + ":consistency", f + ":mirror", f + ":upwind"]
    for f in ("sw-centered", "sw-rusanov", "sw-hll", "euler-centered", "euler-centeredmassflow", "euler-hlle", "euler-hllc",
              "euler2d-centered", "euler2d-hlle"):
        req += [f + ":consistency", f + ":mirror"]
    for f in ("sw-hll", "euler-hlle", "euler-hllc", "euler2d-hlle"):
        req.append(f + ":upwind")
    ctx.require(*req, "scalar-calls", "integer-typed", "elementwise-subsets")


def teardown(ctx):
    for e in probes.errors():
        ctx.harness_error(e)


# ------------------------------------------------------------------------------------------ generated state pairs
def _pairs_scalar(rng, n):
    L = rng.uniform(-3, 3, n) * 10 ** rng.uniform(-3, 3, n)
    R = rng.uniform(-3, 3, n) * 10 ** rng.uniform(-3, 3, n)
    k = n // 8
    R[:k] = L[:k]                       # equal states
    R[k:2 * k] = -L[k:2 * k]            # uL = -uR
    L[2 * k:3 * k] = 0.0                # zero on one side
    R[3 * k:4 * k] = np.abs(R[3 * k:4 * k]); L[3 * k:4 * k] = np.abs(L[3 * k:4 * k])      # both positive
    R[4 * k:5 * k] = -np.abs(R[4 * k:5 * k]); L[4 * k:5 * k] = -np.abs(L[4 * k:5 * k])    # both negative
    R[5 * k:6 * k] = L[5 * k:6 * k] * (1 + rng.choice([-1.0, 1.0], k) * 10 ** rng.uniform(-15, -3, k))     # nearly equal
    R[6 * k:6 * k + k // 2] = -L[6 * k:6 * k + k // 2] * (1 + rng.choice([-1.0, 1.0], k // 2) * 10 ** rng.uniform(-15, -3, k // 2))   # nearly opposite
    return L, R


def _wave_pairs(rng, n, cfun):
    """(a, u) pairs for two states: a = rho-like, returns machs with all regimes (equal, sonic, stagnation, super L/R)"""
    mL = rng.uniform(-3, 3, n); mR = rng.uniform(-3, 3, n)
    k = n // 10
    mR[:k] = mL[:k]
    mL[k:2 * k] = rng.choice([-1.0, 1.0], k); mR[k:2 * k] = rng.choice([-1.0, 1.0, 0.5], k)    # exactly sonic
    mL[2 * k:3 * k] = rng.choice([0.0, -0.0], k); mR[2 * k:3 * k] = rng.choice([0.0, -0.0, 0.3, -0.3], k)     # stagnation (+0 and -0)
    mL[3 * k:5 * k] = rng.uniform(1.05, 10, 2 * k); mR[3 * k:5 * k] = rng.uniform(1.05, 10, 2 * k)   # supersonic right
    mL[5 * k:7 * k] = -rng.uniform(1.05, 10, 2 * k); mR[5 * k:7 * k] = -rng.uniform(1.05, 10, 2 * k)  # supersonic left
    mR[7 * k:8 * k] = -mL[7 * k:8 * k]                                                          # uL = -uR (in Mach)
    return mL, mR


def _subsets(ctx, rng, tag, call, L, R, F, masks, nrm=None):
    """elementwise: the flux of one pair of states must not depend on which other pairs are in the same call.  Sub-arrays
    selected by regime (a reduction over the whole array deciding a branch shows here), by position and at random are
    re-evaluated by the real function and compared bit for bit with the full-array result."""
    n = np.asarray(L[0]).shape[-1]
    masks = dict(masks, **{"random-half": rng.random(n) < 0.5, "first-one": np.arange(n) < 1, "last-two": np.arange(n) >= n - 2})
    for sname, msk in masks.items():
        if not np.any(msk):
            continue
        with probes.quiet():
            sub = call([np.asarray(x)[..., msk] for x in L], [np.asarray(x)[..., msk] for x in R], None if nrm is None else nrm[..., msk])
        for i, (a, b) in enumerate(zip(sub, F)):
            a = np.asarray(a, float); b = np.asarray(b, float)[..., msk]
            a, b = np.broadcast_arrays(a, b)
            same = (a == b) | (np.isnan(a) & np.isnan(b))
            ctx.true("elementwise-subsets", bool(np.all(same)), tag + "/flux-depends-on-the-other-elements-of-the-array", None if np.all(same) else {"subset": sname, "equation": i, "index in subset": int(np.flatnonzero(~same.reshape(-1, same.shape[-1]).all(axis=0))[0]), "max diff": float(np.nanmax(np.abs(a - b)))}, cls="elementwise-subsets")


@group(quick=40, thorough=4000)
def pairs_convection(ctx, rng, idx):
    a = float(rng.choice([1.0, -1.0, 0.0, rng.uniform(-5, 5), 10 ** rng.uniform(-3, 3) * rng.choice([-1, 1])]))
    L, R = _pairs_scalar(rng, 400)
    ctx.describe(model="convection", convcoef=a, L=L[:6], R=R[:6], npairs=400)
    model = conv.model(a)
    gen.maybe_decoy(rng)
    F = model.numflux(None, [L], [R])
    _subsets(ctx, rng, "convection", lambda l, r, d: model.numflux(None, l, r), [L], [R], F, {"equal": L == R, "positive": (L > 0) & (R > 0), "negative": (L < 0) & (R < 0)})
    ctx.nontrivial("conv", a, L[:4], R[:4])


@group(quick=40, thorough=4000)
def pairs_burgers(ctx, rng, idx):
    L, R = _pairs_scalar(rng, 200)
    ctx.describe(model="burgers", L=L[:6], R=R[:6], npairs=200)
    bm = burgers.model()
    F = bm.numflux(None, [L], [R])
    _subsets(ctx, rng, "burgers", lambda l, r, d: bm.numflux(None, l, r), [L], [R], F, {"equal": L == R, "right-running": (L > 0) & (R > 0), "left-running": (L < 0) & (R < 0), "shock": L > R, "rarefaction": L < R, "transonic-rarefaction": (L < 0) & (R > 0), "opposite": L == -R})
    ctx.nontrivial("burgers", L[:4], R[:4])


@group(quick=120, thorough=12000)
def pairs_sw(ctx, rng, idx):
    n = 400
    g = float(rng.choice([9.81, 1.0, rng.uniform(1, 20)]))
    flux = ["centered", "rusanov", "hll", "centeredflux"][idx % 4]
    big = rng.random() < 0.3
    hL = 10 ** rng.uniform(-3 if big else -1, 3 if big else 1, n); hR = 10 ** rng.uniform(-3 if big else -1, 3 if big else 1, n)
    mL, mR = _wave_pairs(rng, n, None)
    k = n // 10
    hR[:k] = hL[:k]
    hR[7 * k:8 * k] = hL[7 * k:8 * k]
    # NEARLY equal states (every variable within 1e-15...1e-3 relative of its neighbour): not equal, so no shortcut applies
    near = slice(8 * k, 9 * k)
    hR[near] = hL[near] * (1 + rng.choice([-1.0, 1.0], k) * 10 ** rng.uniform(-15, -3, k)); mR[near] = mL[near] * (1 + rng.choice([-1.0, 1.0], k) * 10 ** rng.uniform(-15, -3, k))
    uL, uR = mL * np.sqrt(g * hL), mR * np.sqrt(g * hR)
    ctx.describe(model="shallowwater", g=g, flux=flux, hL=hL[:5], uL=uL[:5], hR=hR[:5], uR=uR[:5], npairs=n, huge_ratio=big)
    model = shw.shallowwater1d(g=g)
    gen.maybe_decoy(rng)
    F = model.numflux(flux, [hL, uL], [hR, uR])
    _subsets(ctx, rng, "sw-" + flux, lambda l, r, d: model.numflux(flux, l, r), [hL, uL], [hR, uR], F,
             {"equal": (hL == hR) & (uL == uR), "supercritical-right": (mL > 1) & (mR > 1), "supercritical-left": (mL < -1) & (mR < -1), "subcritical": (np.abs(mL) < 1) & (np.abs(mR) < 1), "at-rest": (uL == 0) & (uR == 0)})
    ctx.nontrivial("sw", flux, g, hL[:4], uL[:4])


@group(quick=200, thorough=20000)
def pairs_euler1d(ctx, rng, idx):
    n = 400
    gam = float(rng.choice([1.4, 5 / 3, 1.2, 2.0, np.round(rng.uniform(1.01, 2.0), 3)]))
    flux = ["centered", "centeredmassflow", "hlle", "hllc", "centeredflux"][idx % 5]
    big = rng.random() < 0.3
    e = 3 if big else 1
    rL, rR, pL, pR = (10 ** rng.uniform(-e, e, n) for _ in range(4))
    mL, mR = _wave_pairs(rng, n, None)
    k = n // 10
    rR[:k], pR[:k] = rL[:k], pL[:k]
    rR[7 * k:8 * k], pR[7 * k:8 * k] = rL[7 * k:8 * k], pL[7 * k:8 * k]
    near = slice(8 * k, 9 * k)      # NEARLY equal states
    nr = lambda: 1 + rng.choice([-1.0, 1.0], k) * 10 ** rng.uniform(-15, -3, k)
    rR[near], pR[near], mR[near] = rL[near] * nr(), pL[near] * nr(), mL[near] * nr()
    uL, uR = mL * np.sqrt(gam * pL / rL), mR * np.sqrt(gam * pR / rR)
    model = euler.euler1d(gamma=gam) if idx % 2 else euler.nozzle(lambda x: 1 + 0 * x, gamma=gam)
    gen.maybe_decoy(rng, 0.5)
    ctx.describe(model=type(model).__name__, gamma=gam, flux=flux, L=[rL[:4], uL[:4], pL[:4]], R=[rR[:4], uR[:4], pR[:4]], npairs=n, huge_ratio=big)
    F = model.numflux(flux, [rL, uL, pL], [rR, uR, pR])
    _subsets(ctx, rng, "euler-" + flux, lambda l, r, d: model.numflux(flux, l, r), [rL, uL, pL], [rR, uR, pR], F,
             {"equal": (rL == rR) & (uL == uR) & (pL == pR), "supersonic-right": (mL > 1) & (mR > 1), "supersonic-left": (mL < -1) & (mR < -1), "subsonic": (np.abs(mL) < 1) & (np.abs(mR) < 1),
              "at-rest": (uL == 0) & (uR == 0), "right-running": (uL > 0) & (uR > 0), "left-running": (uL < 0) & (uR < 0)})
    # mixed forms: ONE left (or right) state given as python floats / numpy scalars against an array of states on the other side
    # (plain broadcasting): the result must be that of the same call with the state repeated in full arrays
    j0 = int(rng.integers(n)); side = int(rng.integers(2)); cast = [float, np.float64][int(rng.integers(2))]
    one = [cast(rL[j0]), cast(uL[j0]), cast(pL[j0])] if side == 0 else [cast(rR[j0]), cast(uR[j0]), cast(pR[j0])]
    rep = [np.full(n, v) for v in one]
    try:
        with probes.quiet():
            Fm = model.numflux(flux, one, [rR, uR, pR]) if side == 0 else model.numflux(flux, [rL, uL, pL], one)
            Ff = model.numflux(flux, rep, [rR, uR, pR]) if side == 0 else model.numflux(flux, [rL, uL, pL], rep)
        for i in range(3):
            a_, b_ = np.broadcast_to(np.asarray(Fm[i], float), (n,)), np.asarray(Ff[i], float)
            ok = np.isfinite(b_)
            ctx.close("euler-scalar-call", float(np.max(np.abs(a_ - b_)[ok] / (np.abs(b_[ok]) + np.max(np.abs(b_[ok])) * 1e-6 + 1e-300))) if np.any(ok) else 0.0, 1e-10,
                      "euler-%s/one-state-against-an-array-differs-from-full-arrays" % ("hllc" if flux is None else flux), {"eq": i, "scalar side": "left" if side == 0 else "right", "type": cast.__name__}, cls="scalar-calls")
    except (AttributeError, TypeError, ValueError) as e:
        ctx.skip("mixed-scalar-array:refused(%s)" % type(e).__name__)
    # the same states one by one as python floats and as numpy scalars (1D boundary faces are evaluated that way): judged by the
    # monitor like any other call, and equal to the array result up to the libm-pow ulp
    for j in rng.integers(0, n, 6):
        for cast in (float, np.float64):
            Fj = model.numflux(flux, [cast(rL[j]), cast(uL[j]), cast(pL[j])], [cast(rR[j]), cast(uR[j]), cast(pR[j])])
            for i in range(3):
                sc = abs(float(F[i][j])) + max(rL[j], rR[j]) * (abs(uL[j]) + abs(uR[j]) + np.sqrt(gam * max(pL[j] / rL[j], pR[j] / rR[j]))) ** (i + 1) + 1e-300
                ctx.close("euler-scalar-call", abs(float(np.asarray(Fj[i]).ravel()[0]) - float(F[i][j])) / sc, 1e-13, "euler-%s/scalar-call-differs-from-array-call" % ("hllc" if flux is None else flux),
                          {"type": cast.__name__, "eq": i}, cls="scalar-calls")
    ctx.nontrivial("euler1d", flux, gam, rL[:4], uL[:4])


@group(quick=120, thorough=12000)
def pairs_euler2d(ctx, rng, idx):
    n = 400
    gam = float(rng.choice([1.4, 5 / 3, 1.2, np.round(rng.uniform(1.01, 2.0), 3)]))
    flux = ["centered", "hlle", "centeredflux"][idx % 3]
    big = rng.random() < 0.3
    e = 3 if big else 1
    rL, rR, pL, pR = (10 ** rng.uniform(-e, e, n) for _ in range(4))
    mL, mR = _wave_pairs(rng, n, None)
    k = n // 10
    rR[:k], pR[:k] = rL[:k], pL[:k]
    tL, tR = rng.uniform(-2, 2, n), rng.uniform(-2, 2, n)          # tangential Mach
    tR[:k] = tL[:k]
    tL[k:2 * k] = 0; tR[k:2 * k] = 0
    cL, cR = np.sqrt(gam * pL / rL), np.sqrt(gam * pR / rR)
    dirx = rng.random(n) < 0.5
    nrm = np.zeros((2, n), dtype=np.int8); nrm[0, dirx] = 1; nrm[1, ~dirx] = 1
    VL = np.where(dirx, np.vstack([mL * cL, tL * cL]), np.vstack([tL * cL, mL * cL]))
    VR = np.where(dirx, np.vstack([mR * cR, tR * cR]), np.vstack([tR * cR, mR * cR]))
    ctx.describe(model="euler2d", gamma=gam, flux=flux, L=[rL[:3], VL[:, :3], pL[:3]], R=[rR[:3], VR[:, :3], pR[:3]], dir=nrm[:, :3], npairs=n)
    model = euler.euler2d(gamma=gam)
    gen.maybe_decoy(rng, 0.5)
    F = model.numflux(flux, [rL, VL, pL], [rR, VR, pR], nrm)
    _subsets(ctx, rng, "euler2d-" + flux, lambda l, r, d: model.numflux(flux, l, r, d), [rL, VL, pL], [rR, VR, pR], F,
             {"x-faces": dirx, "y-faces": ~dirx, "supersonic-right": (mL > 1) & (mR > 1), "supersonic-left": (mL < -1) & (mR < -1), "subsonic": (np.abs(mL) < 1) & (np.abs(mR) < 1),
              "no-tangential-velocity": (tL == 0) & (tR == 0)}, nrm=nrm)
    ctx.nontrivial("euler2d", flux, gam, rL[:4], VL[:, :4])


@group(quick=150, thorough=6000)
def pairs_integer(ctx, rng, idx):
    """integer-typed states (a user typing 1 for 1.; the density of an integer-typed field stays an integer array through
    cons2prim): every flux of every model, judged by the same monitors, and equal to the same call with floats"""
    k = idx % 5
    n = 60
    it = np.int64 if rng.random() < 0.7 else np.int32
    mixed = bool(rng.random() < 0.5)        # only the first variable integer-typed (what an integer-typed field gives) or all of them
    I = lambda lo, hi, shape=n: rng.integers(lo, hi + 1, shape).astype(it)
    F_ = lambda a: a if not mixed else a.astype(float)
    nrm = None
    if k == 0:
        model = conv.model(int(rng.choice([-2, -1, 1, 3]))); flux = None
        L, R = [I(-4, 4)], [I(-4, 4)]
    elif k == 1:
        model = burgers.model(); flux = None
        L, R = [I(-4, 4)], [I(-4, 4)]
    elif k == 2:
        model = shw.shallowwater1d(g=float(rng.choice([9.81, 1.0]))); flux = ["centered", "rusanov", "hll", None][(idx // 5) % 4]
        L, R = [I(1, 5), F_(I(-12, 12))], [I(1, 5), F_(I(-12, 12))]
    elif k == 3:
        model = euler.euler1d(gamma=float(rng.choice([1.4, 5 / 3]))); flux = ["centered", "centeredmassflow", "hlle", "hllc", None][(idx // 5) % 5]
        L, R = [I(1, 5), F_(I(-4, 4)), F_(I(1, 6))], [I(1, 5), F_(I(-4, 4)), F_(I(1, 6))]
    else:
        model = euler.euler2d(gamma=float(rng.choice([1.4, 5 / 3]))); flux = ["centered", "hlle", "centeredflux"][(idx // 5) % 3]     # (2D hllc is not implemented: TypeError, DESIGN 3/C02)
        L, R = [I(1, 5), F_(I(-4, 4, (2, n))), F_(I(1, 6))], [I(1, 5), F_(I(-4, 4, (2, n))), F_(I(1, 6))]
        dirx = rng.random(n) < 0.5
        nrm = np.zeros((2, n), dtype=np.int8); nrm[0, dirx] = 1; nrm[1, ~dirx] = 1
    q = n // 4
    for a, b in zip(L, R):
        b[..., :q] = a[..., :q]            # equal states (consistency)
    ctx.describe(model=type(model).__name__, flux=flux, integer_typed="first variable" if mixed else "all", L=[x[..., :4] for x in L], R=[x[..., :4] for x in R])
    ctx.ev("integer-typed")
    extra = () if nrm is None else (nrm,)
    got = model.numflux(flux, [x.copy() for x in L], [x.copy() for x in R], *extra)
    ref = model.numflux(flux, [x.astype(float) for x in L], [x.astype(float) for x in R], *extra)
    for i, (a, b) in enumerate(zip(got, ref)):
        a, b = np.broadcast_arrays(np.asarray(a, float), np.asarray(b, float))
        ok = np.isfinite(b)
        sc = np.max(np.abs(b[ok])) + 1e-300 if np.any(ok) else 1.0
        ctx.close("integer-typed", float(np.max(np.abs(a - b)[ok]) / sc) if np.any(ok) else 0.0, 1e-13, "integer-typed/%s-%s/differs-from-the-same-call-with-floats" % (type(model).__name__, flux), {"equation": i}, cls="integer-typed")
        ctx.true("integer-typed", np.array_equal(np.isfinite(a), ok), "integer-typed/%s-%s/finite-pattern-differs" % (type(model).__name__, flux), {"equation": i}, cls="integer-typed")
    ctx.nontrivial("int", k, flux, mixed, [x[..., :3] for x in L])


@group(quick=300, thorough=10000)
def traffic(ctx, rng, idx):
    """face-state pairs produced by the real reconstructions and boundary conditions (1D and 2D rhs calls)"""
    if idx % 3 == 2:
        m, model, disc, f, desc = c01.scenario2d(rng)
        ctx.describe(**desc)
        disc.rhs(f)
        ctx.nontrivial(desc)
    else:
        s = gen.scenario1d(rng, mach_max=3.0)
        ctx.describe(**s.desc())
        s.disc.rhs(s.field)
        ctx.nontrivial(s.desc())
