"""C07 time bookkeeping.  Offline checker over the log of each real solve/restart call (see solvelog)."""
import numpy as np

import flowdyn.field as ffield

from .. import core, gen, probes, solvelog
from ..core import group

CTX = None
MODELS = ["convection", "burgers", "euler1d", "shallowwater"]


def install(ctx):
    global CTX
    CTX = ctx
    solvelog.install()


def traffic_flush(ctx):
    """repository traffic: judge every solve/restart the test just made, then drop the logs"""
    logs = list(solvelog.LOGS)
    del solvelog.LOGS[:]
    for log in logs:
        check_log(ctx, log, log.solver_class, fresh_solver=None)


def setup(ctx):
    install(ctx)
    solvelog.BUDGET["steps"] = 3000
    ctx.on_begin.append(solvelog.reset)
    ctx.require("step-advance", "snapshot-times", "snapshot-origin", "nit", "stop", "caller-field", "snapshot-it", "start-time-request",
                "dense-requests", "restart", "request-on-trajectory-time")


def teardown(ctx):
    for e in probes.errors():
        ctx.harness_error(e)


def ulp(x):
    return float(np.spacing(abs(float(x)) + 1e-300))


# ------------------------------------------------------------------------------------------ offline checker
def check_log(ctx, log, iname, fresh_solver=None, expect_restart=False):
    traj = log.trajectory()
    its = log.iterations()
    N = len(its)
    nst = gen.NSTAGE.get(iname, 1)
    tstart = log.f_before["time"]
    ctx.info["solve_logs"] = ctx.info.get("solve_logs", 0) + 1
    ctx.info["main_steps"] = ctx.info.get("main_steps", 0) + N
    # (1) every step advances time by dt / min(dt)
    for kind, ev in log.events:
        if kind != "step":
            continue
        dtm = float(np.min(ev["dt"]))
        if not np.isfinite(dtm):
            ctx.skip("step:nonfinite-dt")
            continue
        tol = 8 * nst * max(ulp(abs(ev["t0"]) + abs(dtm)), ulp(dtm))
        ctx.close("step-advance", abs((ev["t1"] - ev["t0"]) - dtm) / tol, 1.0, "step/%s/time-advance-not-dt" % iname,
                  {"t0": ev["t0"], "t1": ev["t1"], "dt": dtm, "advance/dt": (ev["t1"] - ev["t0"]) / dtm if dtm else None}, cls="step-advance")
    if log.result is None or not traj:
        ctx.true("solve-returned", False, "solve/no-result", None)
        return
    tfinal = traj[-1]["time"]
    traj_finite = all(np.all(np.isfinite(d)) for t in traj for d in t["data"]) and np.isfinite(tfinal)
    # (5) iteration counter and stop criteria
    ctx.true("nit", log.nit == N and traj[-1]["nit"] == N, "solve/nit-not-number-of-main-steps", {"nit()": log.nit, "main steps": N}, cls="nit")
    ctx.true("totnit", log.totnit == log.itstart + N, "solve/totnit", {"totnit": log.totnit, "itstart": log.itstart, "N": N}, cls="nit")
    if getattr(log, "api", None):
        # the iteration offset as the API defines it: 0 for solve(), the iteration tag of the start field for restart()
        exp_it = 0 if log.api["method"] == "solve" else max(int(log.f_before["it"]), 0)
        ctx.true("totnit", log.itstart == exp_it, "solve/iteration-offset-not-from-the-call", {"method": log.api["method"], "offset used": log.itstart, "expected": exp_it}, cls="nit")
    crit = {}
    if log.tsave:
        crit["tottime"] = log.tsave[-1]
    if log.stop:
        crit.update(log.stop)
    def done(k):
        return ("tottime" in crit and traj[k]["time"] >= crit["tottime"]) or ("maxit" in crit and k >= crit["maxit"])
    if traj_finite:
        early = [k for k in range(N) if done(k)]
        ctx.true("stop", not early and done(N), "solve/stop-criterion", {"criteria": crit, "N": N, "times": [t["time"] for t in traj][-4:], "satisfied before end at": early[:3]}, cls="stop")
    # the kind of time step (one global value / one value per cell) is the one THIS call asked for
    for it in its:
        want_local = bool("dtlocal" in log.directives)
        ctx.true("step-kind", (np.ndim(it["main"]["dt"]) == 1) == want_local, "solve/%s" % ("global-step-used-although-dtlocal-requested" if want_local else "local-time-steps-used-although-not-requested"),
                 {"directives": list(log.directives), "dt passed to step": it["main"]["dt"]}, cls="step-advance")
    # main steps are CFL steps of the state they start from (recomputed here with the CFL number of this call)
    if fresh_solver is not None and "cfl_step" in fresh_solver and traj_finite and not log.directives.get("dtlocal"):
        for it in its:
            with probes.quiet():
                exp = float(fresh_solver["cfl_step"](it["from"]))
            if np.isfinite(exp) and np.ndim(it["main"]["dt"]) == 0:
                ctx.true("main-step-length", float(it["main"]["dt"]) == exp, "solve/main-step-not-the-cfl-step-of-this-call", {"used": float(it["main"]["dt"]), "cfl step": exp, "cfl": log.condition}, cls="step-advance")
    # (6) caller's field untouched
    same = (log.f_after["time"] == log.f_before["time"] and log.f_after["it"] == log.f_before["it"]
            and all(np.array_equal(a, b, equal_nan=True) for a, b in zip(log.f_after["data"], log.f_before["data"])))
    ctx.true("caller-field", same, "solve/caller-field-modified", None, cls="caller-field")
    if not traj_finite:
        ctx.skip("solve:nonfinite-trajectory")
        return
    if any(it["dt"] is not None and np.any(np.isnan(it["dt"])) for it in its):
        # a trajectory state left the admissible set (e.g. negative pressure): calc_timestep returns NaN in some cell and
        # python's min() over such an array is order dependent -- the property only speaks about finite trajectories
        ctx.skip("solve:nan-cell-time-step(inadmissible-trajectory-state)")
        return
    # (2) returned snapshots = requested times in [t_start, t_stop], in order
    expected = [t for t in log.tsave if tstart <= t <= tfinal]
    got = [s["time"] for s in log.result]
    fallback = False
    if not expected:
        if N == 0:
            ok = len(got) == 0 or (len(got) == 1 and got[0] == tstart)
        else:
            ok = len(got) == 1 and got[0] == tfinal and all(np.array_equal(a, b) for a, b in zip(log.result[0]["data"], traj[-1]["data"]))
            fallback = ok
        ctx.true("snapshot-times", ok, "solve/no-request-in-range/result-not-final-state", {"returned": got, "final": tfinal, "N": N}, cls="snapshot-times")
        if fallback:
            ctx.true("snapshot-it", log.result[0]["it"] == log.itstart + N, "solve/final-state-iteration-tag", {"it": log.result[0]["it"], "expected": log.itstart + N}, cls="snapshot-it")
        return
    dense = any(sum(1 for t in expected if a["time"] < t <= b["time"]) >= 2 for a, b in zip(traj[:-1], traj[1:]))
    atstart = tstart in expected
    ok = len(got) == len(expected) and all(abs(g - e) <= 4 * ulp(abs(e) + abs(tstart)) for g, e in zip(got, expected))
    key = "solve/snapshot-times"
    if not ok:
        ontraj = any(any(t == tr["time"] for tr in traj[1:]) for t in expected)
        key += "/dense-requests" if dense else ("/request-at-start-time" if atstart else "/request-on-trajectory-time" if ontraj else "/other")
    ctx.true("snapshot-times", ok, key, {"requested in range": expected, "returned": got, "trajectory times": [t["time"] for t in traj]}, cls="snapshot-times")
    if any(any(t == tr["time"] for tr in traj[1:]) for t in expected):
        ctx.ev("request-on-trajectory-time")
    if dense:
        ctx.ev("dense-requests")
    if atstart:
        ctx.ev("start-time-request")
    # (4) finite
    allside = [(k, ev) for k, it in enumerate(its) for ev in it["side"]]
    for s in log.result:
        fin = all(np.all(np.isfinite(d)) for d in s["data"]) and np.isfinite(s["time"])
        if not fin and fresh_solver is not None and iname != "gear":
            # is it the bookkeeping (zero-length or misplaced side step) or the scheme itself?  Re-execute the side step that produced it on a
            # fresh integrator: an unlimited reconstruction can leave the admissible set inside a stage for one dt and not for another
            cand = [(k, ev) for k, ev in allside if ev["t1"] == s["time"] or (np.isnan(ev["t1"]) and not ev["finite"])]
            if cand and float(np.min(cand[0][1]["dt"])) > 0 and cand[0][1]["t0"] == its[cand[0][0]]["from"]["time"]:
                k, ev = cand[0]
                with probes.quiet():
                    g = fresh_solver["field"](its[k]["from"])
                    try:
                        fresh_solver["make"]().step(g, ev["dt"])
                        refin = all(np.all(np.isfinite(d)) for d in g.data)
                    except np.linalg.LinAlgError:
                        refin = False
                if not refin:
                    ctx.skip("snapshot:scheme-itself-not-finite-for-this-forward-step")
                    continue
        ctx.true("snapshot-finite", fin, "solve/snapshot-not-finite" + ("/request-at-trajectory-time" if any(s["time"] == t["time"] for t in traj) else ""),
                 {"time": s["time"]}, cls="snapshot-finite")
    # (3)+(7) origin of every snapshot: forward side step (0 <= dt <= CFL step) from the current trajectory state
    side = [(k, ev) for k, it in enumerate(its) for ev in it["side"]]
    used = set()
    for s in log.result:
        if not all(np.all(np.isfinite(d)) for d in s["data"]):
            continue
        if s["time"] == tstart and all(np.array_equal(a, b) for a, b in zip(s["data"], log.f_before["data"])):
            ctx.true("snapshot-origin", True, "", cls="snapshot-origin")
            ctx.true("snapshot-it", s["it"] == log.itstart, "solve/snapshot-iteration-tag", {"it": s["it"], "expected": log.itstart}, cls="snapshot-it")
            continue
        match = [(j, k, ev) for j, (k, ev) in enumerate(side) if j not in used and ev["t1"] == s["time"]
                 and all(np.array_equal(a, b) for a, b in zip(ev["data"], s["data"]))]
        if not match:
            ctx.true("snapshot-origin", False, "solve/snapshot-not-from-a-side-step" + ("/start-time" if s["time"] == tstart else ""), {"time": s["time"]}, cls="snapshot-origin")
            continue
        j, k, ev = match[0]
        used.add(j)
        frm = its[k]["from"]
        dts = float(np.min(ev["dt"]))
        cflstep = float(np.min(its[k]["dt"])) if its[k]["dt"] is not None else np.inf
        if fresh_solver is not None and "cfl_step" in fresh_solver:
            with probes.quiet():        # recomputed from the trajectory state and the CFL number of this call
                cflstep = min(cflstep, float(fresh_solver["cfl_step"](frm)))
        # the side-step length is a difference of two times: allow the round-off of the accumulated time
        good = ev["t0"] == frm["time"] and dts >= 0.0 and dts <= cflstep * (1 + 1e-12) + 8 * ulp(abs(ev["t0"]) + abs(dts))
        ctx.true("snapshot-origin", good, "solve/snapshot-side-step" + ("/backward" if dts < 0 else "/not-from-trajectory-state" if ev["t0"] != frm["time"] else "/longer-than-cfl-step"),
                 {"snapshot time": s["time"], "side step from": ev["t0"], "dt": dts, "cfl step": cflstep, "trajectory state time": frm["time"]}, cls="snapshot-origin")
        ctx.true("snapshot-it", s["it"] == log.itstart + k, "solve/snapshot-iteration-tag", {"it": s["it"], "expected": log.itstart + k, "time": s["time"]}, cls="snapshot-it")
        # re-execution: the same integrator stepping the recorded trajectory state by dt must give the snapshot
        if fresh_solver is not None and good and iname != "gear":
            with probes.quiet():
                g = fresh_solver["field"](frm)
                fresh_solver["make"]().step(g, ev["dt"])
            sc = max(np.max(np.abs(d)) for d in s["data"]) + 1e-300
            err = max(np.max(np.abs(a - b)) for a, b in zip(g.data, s["data"])) / sc
            ctx.close("snapshot-value", err, 0.0 if iname in gen.EXPLICIT else 1e-5, "solve/snapshot-value-not-a-step-from-trajectory", {"time": s["time"]}, cls="snapshot-value")


# ------------------------------------------------------------------------------------------ generator
def _scn(rng):
    mname = str(rng.choice(MODELS))
    bc = str(rng.choice(["per", "per", "sym", "open"]))
    s = gen.scenario1d(rng, mname=mname, bc=bc, nmin=3, nmax=12, fluxes=gen.UPWIND_FLUXES, mach_max=1.2, ratio=4.0,
                       recons=["extrapol1", "extrapol2", "extrapol3", "muscl_minmod", "muscl_vanleer", "muscl_superbee", "extrapolk"], anysection=0.5)
    return s


def _tsave(rng, times, kind):
    """save-time list placed relative to the dry-run trajectory times (never within 3% of a step of a trajectory time,
    except the start time itself when asked)"""
    t0 = times[0]
    n = len(times) - 1
    def inside(k, frac):
        k = min(max(k, 0), n - 1)
        return times[k] + frac * (times[k + 1] - times[k])
    step = times[-1] - times[-2] if n >= 1 else 1.0
    if kind == "empty":
        return []
    if kind == "start-only":
        return [t0]
    if kind == "with-start":
        return [t0] + sorted(inside(int(rng.integers(0, n)), float(rng.uniform(0.05, 0.9))) for _ in range(int(rng.integers(1, 4))))
    if kind == "dense":
        k = int(rng.integers(0, n))
        return sorted(inside(k, f) for f in rng.uniform(0.05, 0.9, int(rng.integers(2, 5))))
    if kind == "ulp-close":
        k = int(rng.integers(0, n))
        a = inside(k, float(rng.uniform(0.1, 0.8)))
        return [a, a + 1000 * ulp(a) , a + 2000 * ulp(a)]
    if kind == "beyond":
        return sorted([inside(int(rng.integers(0, n)), float(rng.uniform(0.05, 0.9))), times[-1] + step * float(rng.uniform(0.3, 3.0)), times[-1] + step * float(rng.uniform(3.5, 6.0))])
    if kind == "before-start":
        return [t0 - 2.0 * step, t0 - 0.5 * step]
    if kind == "before-and-after":
        return [t0 - 0.7 * step] + sorted(inside(int(rng.integers(0, n)), float(rng.uniform(0.05, 0.9))) for _ in range(2))
    if kind == "on-trajectory":
        # requests that the trajectory reaches EXACTLY (bitwise): end of a full step, possibly the step that ends the run
        ks = sorted(set(int(k) for k in rng.integers(1, n + 1, int(rng.integers(1, 4)))))
        ts = [times[k] for k in ks]
        if rng.random() < 0.5:
            ts = sorted(set(ts + [inside(int(rng.integers(0, n)), float(rng.uniform(0.05, 0.9)))]))
        if rng.random() < 0.3:
            ts = [t0] + ts
        return ts
    # random
    return sorted(inside(int(rng.integers(0, n)), float(rng.uniform(0.05, 0.9))) for _ in range(int(rng.integers(1, 6))))


TS_KINDS = ["empty", "start-only", "with-start", "dense", "ulp-close", "beyond", "before-start", "before-and-after", "random", "random", "dense",
            "on-trajectory", "on-trajectory"]


@group(quick=1500, thorough=60000)
def solve_hist(ctx, rng, idx):
    iname = gen.ALL_INTEG[idx % len(gen.ALL_INTEG)]
    s = _scn(rng)
    implicit = iname in gen.IMPLICIT
    cfl = float(rng.uniform(0.05, 0.8) if not implicit else rng.uniform(0.05, 2.0))
    if s.rname != "extrapol1" and not implicit:
        cfl = min(cfl, 0.4)
    dtlocal = bool(rng.random() < 0.15)
    t0 = float(rng.choice([0.0, 0.0, np.round(rng.uniform(-1, 3), 3), np.round(rng.uniform(-1, 3), 3), float(rng.choice([-1.0, 1.0])) * 10 ** float(rng.integers(2, 7))]))
    restart = bool(rng.random() < 0.25)
    # restart() goes on counting from the stamp of the field it is given; solve() counts ITS OWN steps from 0 whatever that stamp is
    # (a snapshot of an earlier run, or a field built with it=k, handed to solve() -- 40 % of the solve calls)
    f = ffield.fdata(s.model, s.mesh, s.field.data, t=t0, it=int(rng.integers(0, 50)) if (restart or rng.random() < 0.4) else -1)
    directives = {"dtlocal": True} if dtlocal else {}
    make = lambda: gen.integ(iname)(s.mesh, s.disc)
    # dry run (not observed) to learn where the trajectory times are
    ndry = int(rng.integers(1, 9))
    with probes.quiet():
        dry = make()
        times = [t0]
        g = f.copy()
        try:
            for _ in range(ndry + 2):
                dtc = s.disc.calc_timestep(g, cfl)
                dry.step(g, dtc if dtlocal else min(dtc))
                times.append(g.time)
        except np.linalg.LinAlgError:
            raise core.Skip("singular implicit system in dry run")
    if not np.all(np.isfinite(times)) or np.any(np.diff(times) <= 0):
        raise core.Skip("dry run not advancing")
    tkind = TS_KINDS[int(rng.integers(len(TS_KINDS)))]
    tsave = _tsave(rng, times[:ndry + 1], tkind)
    skind = str(rng.choice(["tottime", "maxit", "both", "tsave-only"]))
    stop = {}
    if skind in ("tottime", "both"):
        k = int(rng.integers(0, ndry + 1))
        stop["tottime"] = times[k] + 0.97 * (times[k + 1] - times[k]) if rng.random() < 0.8 else times[k]
    if skind in ("maxit", "both"):
        stop["maxit"] = int(rng.integers(0, ndry + 2))
    if skind == "tsave-only" and not tsave:
        stop["maxit"] = ndry
    # every generated solve carries a maxit: a trajectory that blows up (NaN time) would otherwise loop forever
    stop.setdefault("maxit", ndry + (2 if skind == "tottime" else 25))
    if rng.random() < 0.5:      # the criteria are a dictionary: the order in which the caller wrote them must not matter
        stop = dict(reversed(list(stop.items())))
    ctx.describe(integrator=iname, cfl=cfl, dtlocal=dtlocal, t_start=t0, call="restart" if restart else "solve", start_it=f.it,
                 tsave=tsave, tsave_kind=tkind, stop=stop, stop_keys_in_order=list(stop), dry_run_times=times, **s.desc())
    solver = make()
    warm = bool(rng.random() < 0.3) and not (restart and iname == "gear")
    if warm:      # the SAME integrator object has already been used with another CFL number (solve, sometimes followed by a restart)
        try:
            wcfl = cfl * float(rng.choice([0.4, 1.9]))
            pre = solver.solve(s.field, wcfl, stop={"maxit": 2})
            if rng.random() < 0.5:
                solver.restart(pre[-1], wcfl * 0.7, stop={"maxit": 1}, directives={"dtlocal": True})
        except np.linalg.LinAlgError:
            pass
        del solvelog.LOGS[:]
        ctx.describe(integrator_used_before_with_another_cfl=True)
    call = solver.restart if restart else solver.solve
    # the save times as a list, a tuple or an array; the CFL number as a python float or a numpy scalar
    form = str(rng.choice(["list", "list", "tuple", "array"]))
    tsave_arg = tsave if form == "list" else tuple(tsave) if form == "tuple" else np.array(tsave, dtype=float)
    cfl_arg = cfl if rng.random() < 0.7 else np.float64(cfl)
    ctx.describe(tsave_given_as=form, cfl_given_as=type(cfl_arg).__name__)
    stop_arg = dict(stop) if stop else None
    dirs_arg = dict(directives)
    try:
        call(f, cfl_arg, tsave_arg, stop=stop_arg, directives=dirs_arg)
    except np.linalg.LinAlgError:
        raise core.Skip("singular implicit system")
    finally:
        logs = list(solvelog.LOGS)
    # the caller's other argument objects hold what the caller wrote (a dictionary or list changed in place would carry one call's
    # settings into the next one)
    ctx.true("caller-arguments", (stop_arg == (dict(stop) if stop else None)) and dirs_arg == dict(directives) and len(tsave_arg) == len(tsave) and all(float(a_) == float(b_) for a_, b_ in zip(tsave_arg, tsave)),
             "solve/caller-arguments-modified", {"stop after": stop_arg, "stop given": stop, "directives after": dirs_arg, "tsave after": list(map(float, tsave_arg))}, cls="caller-field")
    if not logs:
        ctx.true("log", False, "solve/raised-before-returning", None)
        return
    fresh = {"make": make, "field": lambda st: ffield.fdata(s.model, s.mesh, st["data"], t=st["time"]),
             "cfl_step": lambda st: np.min(s.disc.calc_timestep(ffield.fdata(s.model, s.mesh, st["data"], t=st["time"]), cfl))}
    if implicit and s.model.islinear and s.rname.startswith("muscl"):
        # the model declares itself linear, so the real integrator freezes the Jacobian of its first step although a limited
        # reconstruction makes the operator nonlinear: a fresh integrator cannot reproduce that history (outside C07)
        fresh = None
    check_log(ctx, logs[-1], iname, fresh_solver=fresh)
    if restart:
        ctx.ev("restart")
    ctx.info.setdefault("tsave_kinds", {}).setdefault(tkind, 0)
    ctx.info["tsave_kinds"][tkind] += 1
    ctx.info.setdefault("integrators", {}).setdefault(iname, 0)
    ctx.info["integrators"][iname] += 1
    ctx.nontrivial("solve", iname, cfl, tsave, stop, s.desc())


@group(quick=300, thorough=10000)
def single_step(ctx, rng, idx):
    """direct step() calls: scalar dt and local-dt arrays, dt over 10^+-6, start times != 0"""
    iname = gen.ALL_INTEG[idx % len(gen.ALL_INTEG)]
    s = _scn(rng)
    t0 = float(rng.choice([0.0, np.round(rng.uniform(-5, 5), 3), 1e3]))
    f = ffield.fdata(s.model, s.mesh, s.field.data, t=t0)
    dtc = s.disc.calc_timestep(f, float(10 ** rng.uniform(-4, -0.3)))
    if not np.any(np.isfinite(dtc)):
        raise core.Skip("no finite dt")
    local = bool(rng.random() < 0.4)
    dt = np.array(dtc, float) if local else float(np.min(dtc))
    form = "array per cell"
    if not local:       # one global value in every form a caller may use
        k_ = int(rng.integers(4))
        dt = [float(dt), np.float64(dt), np.array(float(dt)), np.array([float(dt)])][k_]
        form = ["python float", "numpy scalar", "0-d array", "array of shape (1,)"][k_]
    ctx.describe(integrator=iname, t_start=t0, dt=dt, local=local, dt_given_as=form, **s.desc())
    solver = gen.integ(iname)(s.mesh, s.disc)
    nst = gen.NSTAGE[iname]
    before = [d.copy() for d in f.data]
    for k in range(3):
        tb = float(np.asarray(f.time, float).ravel()[0])
        try:
            solver.step(f, dt)
        except np.linalg.LinAlgError:
            raise core.Skip("singular implicit system")
        ctx.true("step-advance", np.ndim(f.time) == 0, "step/%s/field-time-not-a-scalar-after-a-step" % iname, {"time": f.time, "dt given as": form}, cls="step-advance")
        if not np.all(np.isfinite(np.asarray(f.time, float))):
            break
        dtm = float(np.min(dt))
        tol = 8 * nst * max(ulp(abs(tb) + abs(dtm)), ulp(dtm))
        t1_ = float(np.asarray(f.time, float).ravel()[0])
        ctx.close("step-advance", abs((t1_ - tb) - dtm) / tol, 1.0, "step/%s/time-advance-not-dt" % iname,
                  {"t0": tb, "t1": t1_, "dt": dtm, "advance/dt": (t1_ - tb) / dtm, "call": k, "dt given as": form}, cls="step-advance")
    ctx.nontrivial("step", iname, t0, local, s.desc())
