"""C14 periodic seam / translation invariance: rolled twins through the same real code."""
import numpy as np

import flowdyn.mesh as fmesh
import flowdyn.mesh2d as fmesh2d
import flowdyn.modeldisc as md
import flowdyn.xnum as xnum
import flowdyn.field as ffield
import flowdyn.modelphy.euler as euler

from .. import core, gen, probes
from ..core import group
from .c13 import _fluxscale, _finite

PAIRS1D = [(n, k) for n in range(1, 13) for k in range(n)]          # 78 (size, shift) pairs
PAIRS2D = [(nx, ny, kx, ky) for nx in range(1, 6) for ny in range(1, 6) for kx in range(nx) for ky in range(ny) if kx or ky]


def setup(ctx):
    ctx.require("rhs1d", "solve1d", "rhs2d", "solve2d", "rhs2d-mixed", "solve2d-mixed")


def _n1(ctx):
    return len(PAIRS1D) * (30 if ctx.tier == "quick" else 1500)


@group(quick=_n1, thorough=_n1, exhaustive=True)
def shift1d(ctx, rng, idx):
    """exhaustive over n=1..12 and all shifts; scheme/model/integrator random per case"""
    n, k = PAIRS1D[idx % len(PAIRS1D)]
    iname = gen.ALL_INTEG[(idx // len(PAIRS1D)) % len(gen.ALL_INTEG)] if rng.random() < 0.7 else str(rng.choice(gen.ALL_INTEG))
    implicit = iname in gen.IMPLICIT
    if rng.random() < 0.02:
        # beyond the exhaustive sizes: a LARGE periodic mesh (several hundred unknowns; size-dependent code paths), random shift
        n = int(rng.integers(90, 131)) if implicit else int(rng.integers(257, 501))
        k = int(rng.integers(1, n))
        ctx.ev("large-mesh")
    seamx = (not implicit) and n >= 3 and rng.random() < 0.1
    if seamx:
        # one-directional streams with one or two exceptional cells (first / last cell preferred): whole-array predicates ("every face is
        # upwind") are true for the interior faces and false at the seam only -- a class rare enough to be sampled on purpose
        s = gen.scenario1d(rng, bc="per", meshkinds=["uni"], ncell=n, mach_max=1.5, ratio=5.0, dkind="stream-with-exceptions",
                           mname=str(rng.choice(["euler1d", "euler1d", "nozzle", "shallowwater"])))
        ctx.ev("seam-exception-streams")
    else:
        s = gen.scenario1d(rng, bc="per", meshkinds=["uni"], ncell=n, mach_max=1.5, ratio=5.0, dkind="smooth" if implicit else None, lscale=0.2)
    spec = gen.spec_from_scn(s)
    tw = gen.Spec(spec.mname, spec.mparams, spec.faces, spec.rname, spec.flux, spec.bcL, spec.bcR, [np.roll(p, k) for p in spec.prim], section=(lambda x: 1.0 + 0 * x) if spec.mname == "nozzle" else None)
    spec.section = tw.section
    model, mesh, disc, f = spec.build()
    used_before = bool(n >= 2 and rng.random() < 0.3)
    if used_before:
        # history: the scheme and model objects of the problem were used before on a stretched mesh of the same size, length and origin
        gen.use_on_stretched_twin_mesh(rng, model, mesh, disc.num, spec.flux, spec.prim, spec.bcL, spec.bcR)
        ctx.ev("scheme-used-before-on-a-stretched-mesh-of-the-same-size")
    share = bool(rng.random() < 0.5)        # the rolled twin reuses the scheme and model objects of the original problem
    model2, mesh2, disc2, f2 = tw.build(num=disc.num if share else None, model=model if share else None)
    cfl = float(rng.uniform(0.1, 0.4) if not implicit else rng.uniform(0.2, 1.5))
    nstep = int(rng.integers(1, 7 if not implicit else 4))
    dirs = {"dtlocal": True} if rng.random() < 0.25 else {}        # a quarter of the twins run with one time step per cell
    if dirs:
        # ... when the cell time steps are of comparable size: a Burgers cell with u ~ 0 gets a step thousands of times longer than its
        # neighbours, the run blows up and round-off differences between twins are amplified without bound (thorough-tier witness)
        with probes.quiet():
            dtc_ = np.asarray(disc.calc_timestep(f, 1.0), float)
        if not (np.all(np.isfinite(dtc_)) and np.max(dtc_) <= 30.0 * np.min(dtc_)):
            dirs = {}
        # ... and not for Burgers data that change sign: with local steps the sonic faces (uL + uR ~ 0, where the upwind flux switches sides)
        # turn an ulp of difference between the twins into an O(1) one, which no finite perturbation measures (thorough-tier witness)
        if spec.mname == "burgers" and np.min(spec.prim[0]) < 0.0 < np.max(spec.prim[0]):
            dirs = {}
    ctx.describe(n=n, shift=k, integrator=iname, cfl=cfl, nstep=nstep, directives=dirs, **spec.desc())
    r1 = [np.roll(x, k) for x in disc.rhs(f)]; r2 = disc2.rhs(f2)
    if not (_finite(r1) and _finite(r2)):
        raise core.Skip("nonfinite rhs")
    if not (gen.faces_admissible(disc, spec.mname) and gen.faces_admissible(disc2, spec.mname)):
        raise core.Skip("reconstructed face states not admissible")
    fs = _fluxscale(spec.mname, model, spec.prim)
    fs = [max(a_, float(np.max(np.abs(np.asarray(disc.flux[i], float))))) for i, a_ in enumerate(fs)]
    dx = mesh.length / n
    tag = "%s/%s/%s" % (spec.mname, spec.flux, spec.rname.split("(")[0])
    for i in range(model.neq):
        ctx.close("rhs1d", np.max(np.abs(r1[i] - r2[i])) * dx / fs[i], 1e-10, "shift1d/rhs-not-shifted/" + tag, {"eq": i, "n": n, "shift": k, "rolled original": r1[i], "twin": r2[i]}, cls="rhs1d")
    try:
        e1 = gen.integ(iname)(mesh, disc).solve(f, cfl, stop={"maxit": nstep}, directives=dict(dirs))[-1]
        e2 = gen.integ(iname)(mesh2, disc2).solve(f2, cfl, stop={"maxit": nstep}, directives=dict(dirs))[-1]
    except np.linalg.LinAlgError:
        raise core.Skip("singular")
    d1 = [np.roll(x, k) for x in e1.data]
    if not (_finite(d1) and _finite(e2.data)):
        raise core.Skip("nonfinite solve")
    tol = 1e-4 * max(1.0, cfl) if implicit else 1e-9
    for i in range(model.neq):
        sc = max(np.max(np.abs(f.data[i])), np.max(np.abs(e1.data[i]))) + 1e-300
        if i == 1:
            sc = max(sc, np.max(np.abs(f.data[0])) * fs[1] / fs[0])
        err = np.max(np.abs(d1[i] - e2.data[i])) / sc
        if err > tol:
            from .c13 import _amplification
            amp = _amplification(spec, iname, cfl, nstep, rng, dirs)
            if not amp <= 1e4:
                ctx.skip("twin:unstable-configuration(amplification>1e4)")
                continue
            err /= max(1.0, amp)
        ctx.close("solve1d", err, tol, "shift1d/solve-not-shifted/%s/%s" % ("implicit" if implicit else "explicit", tag), {"eq": i, "integrator": iname, "n": n, "shift": k}, cls="solve1d")
    ctx.nontrivial("shift1d", n, k, iname, spec.desc())


def _n2(ctx):
    return len(PAIRS2D) * (4 if ctx.tier == "quick" else 300)


def roll2d(a, nx, ny, kx, ky):
    a = np.asarray(a)
    sh = a.shape
    g = a.reshape(sh[:-1] + (ny, nx))
    g = np.roll(np.roll(g, kx, axis=-1), ky, axis=-2)
    return g.reshape(sh)


@group(quick=_n2, thorough=_n2, exhaustive=True)
def shift2d(ctx, rng, idx):
    """exhaustive over nx, ny = 1..5 and all shifts in x, y and both; bit-identical (scalar dx, dy)"""
    nx, ny, kx, ky = PAIRS2D[idx % len(PAIRS2D)]
    lx, ly = float(np.round(rng.uniform(0.5, 3), 3)), float(np.round(rng.uniform(0.5, 3), 3))
    m = fmesh2d.mesh2d(nx, ny, lx, ly)
    gam = float(rng.choice([1.4, 5 / 3]))
    model = euler.euler2d(gamma=gam)
    n = nx * ny
    rho = 10 ** rng.uniform(-0.5, 0.5, n); p = 10 ** rng.uniform(-0.5, 0.5, n)
    c = np.sqrt(gam * p / rho)
    V = rng.uniform(-1.5, 1.5, (2, n)) * c
    k = float(rng.choice([-1.0, 0.0, 1.0 / 3.0, 0.5, 1.0, np.round(rng.uniform(-1, 1), 2)]))
    first = rng.random() < 0.35
    flux = str(rng.choice(["centered", "hlle"]))
    iname = str(rng.choice(gen.EXPLICIT))
    cfl = float(rng.uniform(0.05, 0.3)); nstep = int(rng.integers(1, 7))
    bcl = {t: {"type": "per"} for t in m.list_of_bctags()}
    ctx.describe(nx=nx, ny=ny, shift_x=kx, shift_y=ky, lx=lx, ly=ly, gamma=gam, recon="extrapol2d1" if first else "extrapol2dk(%g)" % k, flux=flux,
                 integrator=iname, cfl=cfl, nstep=nstep, prim=[rho, V, p])
    def run(prim):
        num = xnum.extrapol2d1() if first else xnum.extrapol2dk(k)
        disc = md.fvm2d(model, m, num, bclist=bcl, numflux=flux)
        f = ffield.fdata(model, m, model.prim2cons(prim))
        r = [x.copy() for x in disc.rhs(f)]
        e = gen.integ(iname)(m, disc).solve(f, cfl, stop={"maxit": nstep})[-1]
        return r, e
    r1, e1 = run([rho, V, p])
    r2, e2 = run([roll2d(rho, nx, ny, kx, ky), roll2d(V, nx, ny, kx, ky), roll2d(p, nx, ny, kx, ky)])
    if not (_finite(r1) and _finite(r2)):
        raise core.Skip("nonfinite")
    same = all(np.array_equal(roll2d(a, nx, ny, kx, ky), b) for a, b in zip(r1, r2))
    ctx.true("rhs2d", same, "shift2d/rhs-not-bit-identical/%s/%s" % (flux, "extrapol2d1" if first else "extrapol2dk"),
             {"max diff": max(np.max(np.abs(roll2d(a, nx, ny, kx, ky) - b)) for a, b in zip(r1, r2))}, cls="rhs2d")
    if _finite(e1.data) and _finite(e2.data):
        same = e1.time == e2.time and all(np.array_equal(roll2d(a, nx, ny, kx, ky), b) for a, b in zip(e1.data, e2.data))
        ctx.true("solve2d", same, "shift2d/solve-not-bit-identical/%s/%s" % (flux, "extrapol2d1" if first else "extrapol2dk"),
                 {"integrator": iname, "max diff": max(np.max(np.abs(roll2d(a, nx, ny, kx, ky) - b)) for a, b in zip(e1.data, e2.data))}, cls="solve2d")
    ctx.nontrivial("shift2d", nx, ny, kx, ky, flux, iname)


MIXED = [(nx, ny, k, ax) for nx in range(1, 6) for ny in range(1, 6) for ax in (0, 1) for k in range(1, (nx if ax == 0 else ny))]


def _n3(ctx):
    return len(MIXED) * (4 if ctx.tier == "quick" else 300)


@group(quick=_n3, thorough=_n3, exhaustive=True)
def shift2d_mixed(ctx, rng, idx):
    """periodic in ONE direction only (walls / uniform inlet-outlet / uniform dirichlet on the other pair): shifting along the
    periodic direction must still commute with the operator and the solve; exhaustive nx,ny=1..5 x shifts x direction"""
    nx, ny, k, ax = MIXED[idx % len(MIXED)]
    lx, ly = float(np.round(rng.uniform(0.5, 3), 3)), float(np.round(rng.uniform(0.5, 3), 3))
    m = fmesh2d.mesh2d(nx, ny, lx, ly)
    gam = float(rng.choice([1.4, 5 / 3]))
    model = euler.euler2d(gamma=gam)
    n = nx * ny
    rho0, p0 = float(10 ** rng.uniform(-0.5, 0.5)), float(10 ** rng.uniform(-0.5, 0.5))
    rho = rho0 * rng.uniform(0.7, 1.4, n); p = p0 * rng.uniform(0.7, 1.4, n)
    c = np.sqrt(gam * p0 / rho0)
    V = rng.uniform(-0.8, 0.8, (2, n)) * c
    per = ("left", "right") if ax == 0 else ("bottom", "top")
    oth = ("bottom", "top") if ax == 0 else ("left", "right")
    nfo = nx if ax == 0 else ny
    def other_bc():
        ty = str(rng.choice(["sym", "sym", "outsub", "outsup", "insub", "insup", "dirichlet"]))
        d = {"type": ty}
        if ty in ("insub", "insup"):
            from .. import refs
            pt, rtt = refs.totals(rho0, (0.4 if ty == "insub" else 1.6) * c, p0, gam)
            d.update(ptot=float(pt), rttot=float(rtt))
            if ty == "insup":
                d["p"] = p0
        if ty == "outsub":
            d["p"] = p0 * float(rng.uniform(0.8, 1.2))
        if ty == "dirichlet":        # uniform along the boundary (a shift-invariant condition)
            d["prim"] = [np.full(nfo, rho0 * 1.1), np.vstack([np.full(nfo, 0.2 * c), np.full(nfo, -0.1 * c)]), np.full(nfo, p0 * 0.9)]
        return d
    bcl = {per[0]: {"type": "per"}, per[1]: {"type": "per"}, oth[0]: other_bc(), oth[1]: other_bc()}
    kk = float(rng.choice([-1.0, 0.0, 1.0 / 3.0, 0.5, 1.0, np.round(rng.uniform(-1, 1), 2)]))
    first = rng.random() < 0.25
    flux = str(rng.choice(["centered", "hlle"]))
    iname = str(rng.choice(gen.EXPLICIT))
    cfl = float(rng.uniform(0.05, 0.3)); nstep = int(rng.integers(1, 5))
    kx, ky = (k, 0) if ax == 0 else (0, k)
    ctx.describe(nx=nx, ny=ny, shift_x=kx, shift_y=ky, periodic_pair=per, bc={t: {a: b for a, b in d.items() if a != "prim"} for t, d in bcl.items()}, lx=lx, ly=ly, gamma=gam,
                 recon="extrapol2d1" if first else "extrapol2dk(%g)" % kk, flux=flux, integrator=iname, cfl=cfl, nstep=nstep, prim=[rho, V, p])
    def run(prim):
        num = xnum.extrapol2d1() if first else xnum.extrapol2dk(kk)
        disc = md.fvm2d(model, m, num, bclist=bcl, numflux=flux)
        f = ffield.fdata(model, m, model.prim2cons(prim))
        r = [x.copy() for x in disc.rhs(f)]
        e = gen.integ(iname)(m, disc).solve(f, cfl, stop={"maxit": nstep})[-1]
        return r, e
    r1, e1 = run([rho, V, p])
    r2, e2 = run([roll2d(rho, nx, ny, kx, ky), roll2d(V, nx, ny, kx, ky), roll2d(p, nx, ny, kx, ky)])
    if not (_finite(r1) and _finite(r2)):
        raise core.Skip("nonfinite")
    tag = "%s/%s/other-%s-%s" % (flux, "extrapol2d1" if first else "extrapol2dk", bcl[oth[0]]["type"], bcl[oth[1]]["type"])
    same = all(np.array_equal(roll2d(a, nx, ny, kx, ky), b) for a, b in zip(r1, r2))
    ctx.true("rhs2d-mixed", same, "shift2d-mixed/rhs-not-bit-identical/" + tag, {"max diff": max(np.max(np.abs(roll2d(a, nx, ny, kx, ky) - b)) for a, b in zip(r1, r2))}, cls="rhs2d-mixed")
    if _finite(e1.data) and _finite(e2.data):
        same = e1.time == e2.time and all(np.array_equal(roll2d(a, nx, ny, kx, ky), b) for a, b in zip(e1.data, e2.data))
        ctx.true("solve2d-mixed", same, "shift2d-mixed/solve-not-bit-identical/" + tag, {"integrator": iname}, cls="solve2d-mixed")
    ctx.nontrivial("shift2d-mixed", nx, ny, kx, ky, flux, iname, tag)
