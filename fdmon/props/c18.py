"""C18 time step = CFL x cell size / spectral radius.  Always-on monitors on model.timestep and calc_timestep; the spectral
radius is obtained numerically from the eigenvalues of the central-difference Jacobian of the model's own consistent flux."""
import numpy as np

import flowdyn.modeldisc as md
import flowdyn.field as ffield
import flowdyn.modelphy.euler as euler
import flowdyn.modelphy.shallowwater as shw
import flowdyn.modelphy.convection as conv
import flowdyn.modelphy.burgers as burgers

from .. import core, gen, probes, solvelog
from ..core import group
from . import c01, c15

CTX = None
TOL = 1e-5       # finite-difference eigenvalues; measured worst 2.4e-8 over 5 seeds


def spectral_radius(model, data):
    """max |eigenvalue| of d f / d Q per cell, f(Q) = model.numflux(consistent)(W(Q), W(Q)) -- central differences"""
    eqn = model.equation
    Q = [np.array(d, dtype=float) for d in data]
    two_d = eqn == "euler" and Q[1].ndim == 2
    n = Q[0].shape[-1]
    comps = [(0, None)] if len(Q) == 1 else ([(0, None), (1, 0), (1, 1), (2, None)] if two_d else [(i, None) for i in range(len(Q))])
    m = len(comps)
    if two_d:
        V = Q[1] / Q[0]
        q = np.sqrt(V[0] ** 2 + V[1] ** 2)
        nrm = np.where(q > 0, V / np.where(q > 0, q, 1.0), np.vstack([np.ones(n), np.zeros(n)]))
    def flux(Qp):
        with probes.quiet():
            W = model.cons2prim([np.array(x, copy=True) for x in Qp])
            W2 = [np.array(x, copy=True) for x in W]
            if eqn == "convection" or eqn == "burgers":
                F = model.numflux(None, W, W2)
            elif eqn == "shallowwater":
                F = model.numflux("centered", W, W2)
            elif two_d:
                F = model.numflux("centered", W, W2, nrm)
            else:
                F = model.numflux("centered", W, W2)
        out = []
        for (i, k) in comps:
            out.append(np.asarray(F[i], float) if k is None else np.asarray(F[i], float)[k])
        return np.array(out)          # (m, n)
    scale = []
    if eqn == "euler":
        rho = Q[0]; mom = np.sqrt(np.sum(np.atleast_2d(Q[1]) ** 2, axis=0)); E = Q[2]
        ms = np.sqrt(rho * E) + mom
        scale = [rho, ms, ms, E] if two_d else [rho, ms, E]
    elif eqn == "shallowwater":
        scale = [Q[0], np.abs(Q[1]) + Q[0] * np.sqrt(model.g * Q[0])]
    else:
        scale = [np.abs(Q[0]) + 1e-300]
    J = np.zeros((n, m, m))
    for col, (i, k) in enumerate(comps):
        h = 1e-6 * scale[col]
        Qp = [x.copy() for x in Q]; Qm = [x.copy() for x in Q]
        if k is None:
            Qp[i] = Qp[i] + h; Qm[i] = Qm[i] - h
        else:
            Qp[i][k] = Qp[i][k] + h; Qm[i][k] = Qm[i][k] - h
        J[:, :, col] = ((flux(Qp) - flux(Qm)) / (2 * h)).T
    with np.errstate(all="ignore"):
        fin = np.all(np.isfinite(J.reshape(n, -1)), axis=1)
        lam = np.full(n, np.nan)
        if np.any(fin):
            lam[fin] = np.max(np.abs(np.linalg.eigvals(J[fin])), axis=1)
    return lam


def radius_formula(model, data):
    """the spectral radius as the property spells it out: |a|; |u|; |u| + sqrt(g h); |u| + c -- from the conservative data, in the
    monitor's own arithmetic.  The finite-difference eigenvalues above are an independent derivation of the same number, but the
    eigenvalues u +- c of a nearly defective Jacobian (|u| >> c: thin fast layers, hypersonic rarefied gas) are ill-conditioned:
    there the formula is the reference"""
    eqn = model.equation
    Q = [np.asarray(d, float) for d in data]
    with np.errstate(all="ignore"):
        if eqn == "convection":
            return np.full(Q[0].shape, abs(float(model.convcoef)))
        if eqn == "burgers":
            return np.abs(Q[0])
        if eqn == "shallowwater":
            return np.abs(Q[1] / Q[0]) + np.sqrt(model.g * Q[0])
        mom2 = np.sum(np.atleast_2d(Q[1]) ** 2, axis=0)
        p = (model.gamma - 1.0) * (Q[2] - 0.5 * mom2 / Q[0])
        return np.sqrt(mom2) / Q[0] + np.sqrt(model.gamma * p / Q[0])


def _reference_radius(model, data):
    lam = spectral_radius(model, data)
    lf = radius_formula(model, data)
    with np.errstate(all="ignore"):
        # where the two independent derivations agree to 1e-7 the eigenvalue computation is kept; elsewhere (ill-conditioned
        # eigenvalues or a non-finite finite-difference Jacobian) the formula of the statement
        bad = ~np.isfinite(lam) | (np.abs(lam - lf) > 1e-7 * np.abs(lf))
    return np.where(bad, lf, lam), int(np.sum(bad & np.isfinite(lf)))


def _admissible(model, data):
    """cells whose state is physically admissible (rho > 0 and p > 0; h > 0): the property speaks of the flux Jacobian of such states.  A
    trajectory that has left the admissible set can hold e.g. rho < 0 AND p < 0, for which the code's formula is finite but the
    Jacobian's eigenvalues are something else (thorough-tier witness)"""
    eqn = model.equation
    d0 = np.asarray(data[0], float)
    if eqn == "euler":
        mom2 = np.sum(np.atleast_2d(np.asarray(data[1], float)) ** 2, axis=0)
        with np.errstate(all="ignore"):
            return (d0 > 0) & ((np.asarray(data[2], float) - 0.5 * mom2 / d0) > 0)
    if eqn == "shallowwater":
        return d0 > 0
    return np.ones(d0.shape, bool)


def mon_timestep(args, kwargs, result, tok):
    ctx = CTX
    if not probes.take("timestep"):
        ctx.skip("timestep:not-sampled")
        return
    model, data, dx, cfl = args[0], args[1], args[2], args[3]
    eqn = model.equation
    dt = np.atleast_1d(np.asarray(result, float))
    name = type(model).__name__ if eqn == "euler" else eqn
    cls = "timestep:" + name
    lam, nform = _reference_radius(model, data)
    ctx.info["cells_judged_by_the_formula_of_the_statement"] = ctx.info.get("cells_judged_by_the_formula_of_the_statement", 0) + nform
    size = np.broadcast_to(np.asarray(dx, float), dt.shape)
    adm = np.isfinite(lam) & (lam > 0) & np.isfinite(dt)
    adm &= _admissible(model, data)
    if np.any(adm) and cfl > 0:
        ratio = dt[adm] * lam[adm] / (cfl * size[adm])
        j = int(np.argmax(np.abs(ratio - 1)))
        ctx.close("formula", np.max(np.abs(ratio - 1)), TOL, "timestep/%s/not-cfl-size-over-spectral-radius" % name,
                  {"dt": dt[adm][j], "cfl": cfl, "size": size[adm][j], "spectral radius": lam[adm][j], "dt*rho/(cfl*size)": ratio[j]}, cls=cls)
        ctx.true("positive", np.all(dt[adm] > 0), "timestep/%s/not-positive" % name, None, cls=cls)
    else:
        ctx.skip("timestep:no-admissible-cell")
    # metamorphic twins on the same real function: proportional to CFL and size, local
    with probes.quiet():
        d2 = np.atleast_1d(np.asarray(model.timestep([np.array(x, copy=True) for x in data], dx, 2.0 * cfl), float))
        d3 = np.atleast_1d(np.asarray(model.timestep([np.array(x, copy=True) for x in data], np.asarray(dx, float) * 4.0, cfl), float))
    fin = np.isfinite(dt) & (np.abs(dt) > 1e-290) & (np.abs(dt) < 1e290)        # doubling / quadrupling a subnormal or near-overflow step is not exact
    ctx.true("prop-cfl", np.array_equal(d2[fin], 2.0 * dt[fin]), "timestep/%s/not-proportional-to-cfl" % name, None, cls=cls)
    ctx.true("prop-size", np.array_equal(d3[fin], 4.0 * dt[fin]), "timestep/%s/not-proportional-to-cell-size" % name, None, cls=cls)
    n = dt.size
    if n >= 2 and eqn != "convection":
        pert = [np.array(x, dtype=float, copy=True) for x in data]
        keep = n // 2
        for x in pert:          # change every other cell (keep admissibility: scale the whole state)
            mask = np.arange(n) != keep
            x[..., mask] = x[..., mask] * 1.7
        with probes.quiet():
            d4 = np.atleast_1d(np.asarray(model.timestep(pert, dx, cfl), float))
        same = d4[keep] == dt[keep] or (np.isnan(d4[keep]) and np.isnan(dt[keep]))
        ctx.true("local", same, "timestep/%s/depends-on-other-cells" % name, {"cell": keep, "dt": dt[keep], "after perturbing others": d4[keep]}, cls=cls)


def mon_calc_timestep(args, kwargs, result, tok):
    """the discretisation passes the right cell size: face spacing in 1D, dx*dy/(dx+dy) in 2D (computed here from the geometry)"""
    ctx = CTX
    if not probes.take("calc_timestep"):
        return
    disc, f, cfl = args[0], args[1], args[2]
    dt = np.atleast_1d(np.asarray(result, float))
    m = disc.mesh
    if isinstance(disc, md.fvm2dcart):
        dx, dy = m.lx / m.nx, m.ly / m.ny
        size = np.full(dt.shape, dx * dy / (dx + dy)); cls = "calc_timestep:2d"
    else:
        size = np.diff(np.asarray(m.xf, float)); cls = "calc_timestep:1d"
    lam, _ = _reference_radius(disc.model, f.data)
    adm = np.isfinite(lam) & (lam > 0) & np.isfinite(dt) & (dt.shape == size.shape)
    if dt.shape == size.shape:
        adm = adm & _admissible(disc.model, f.data)
    if dt.shape != size.shape:
        ctx.true("shape", False, "calc_timestep/one-value-per-cell", {"shape": dt.shape}, cls=cls)
        return
    if np.any(adm) and cfl > 0:
        ratio = dt[adm] * lam[adm] / (cfl * size[adm])
        ctx.close("size", np.max(np.abs(ratio - 1)), TOL, "calc_timestep/%s/wrong-cell-size-or-speed" % cls.split(":")[1], {"worst ratio": ratio[int(np.argmax(np.abs(ratio - 1)))]}, cls=cls)


def setup(ctx):
    global CTX
    CTX = ctx
    for cls in (conv.model, burgers.model, shw.shallowwater1d, euler.euler):
        probes.hook(cls, "timestep", after=mon_timestep)
    probes.hook(md.fvm1d, "calc_timestep", after=mon_calc_timestep)
    probes.hook(md.fvm2dcart, "calc_timestep", after=mon_calc_timestep)
    solvelog.install()
    ctx.on_begin.append(solvelog.reset)
    ctx.require("timestep:convection", "timestep:burgers", "timestep:shallowwater", "timestep:euler1d", "timestep:nozzle", "timestep:euler2d",
                "calc_timestep:1d", "calc_timestep:2d", "solve:global", "solve:local")


def traffic_flush(ctx):
    del solvelog.LOGS[:]


def teardown(ctx):
    for e in probes.errors():
        ctx.harness_error(e)


@group(quick=500, thorough=20000)
def direct1d(ctx, rng, idx):
    s = gen.scenario1d(rng, nmin=1, nmax=24, mach_max=float(rng.choice([0.5, 3.0, 10.0])), ratio=float(rng.choice([10.0, 1e4])),
                       recons=["extrapol1"], big=0.03, lscale=0.15, anysection=0.7)
    cfl = float(10 ** rng.uniform(-3, 3))
    if s.mname == "euler1d" and rng.random() < 0.15:
        s.field.data[1][:] = 0.0      # at rest
    if s.mname in ("shallowwater", "euler1d", "nozzle") and rng.random() < 0.2:
        # "for every state": thin layers / rarefied gas -- depth (density AND pressure) scaled down or up by many decades in all or in some
        # cells while the velocity stays what it is (conservative variables rescaled together; the state stays admissible)
        fac = 10 ** rng.uniform(-14, -3, s.mesh.ncell) if rng.random() < 0.7 else 10 ** rng.uniform(3, 12, s.mesh.ncell)
        if rng.random() < 0.5:
            fac = np.where(rng.random(s.mesh.ncell) < 0.3, fac, 1.0)
        for q in s.field.data:
            q *= fac
    foreign = bool(rng.random() < 0.2)
    ctx.describe(cfl=cfl, field_carries_another_model_object=foreign, **s.desc())
    s.disc.calc_timestep(gen.foreign_field(rng, s.model, s.mesh, s.field) if foreign else s.field, cfl)
    ctx.nontrivial(s.desc(), cfl)


@group(quick=250, thorough=8000)
def direct2d(ctx, rng, idx):
    sp = c15.random_spec(rng)
    if rng.random() < 0.3:
        sp.prim[1] = sp.prim[1] * float(rng.choice([0.0, 5.0]))      # at rest / hypersonic
    if rng.random() < 0.3:
        sp.prim[1][int(rng.integers(2))] = 0.0                       # axis-aligned flow
    m, model, disc, f = sp.build()
    cfl = float(10 ** rng.uniform(-3, 3))
    foreign = bool(rng.random() < 0.2)
    ctx.describe(cfl=cfl, field_carries_another_model_object=foreign, **sp.desc())
    disc.calc_timestep(gen.foreign_field(rng, model, m, f) if foreign else f, cfl)
    ctx.nontrivial(sp.desc(), cfl)


@group(quick=300, thorough=10000)
def solve_steps(ctx, rng, idx):
    """each main step of a real solve uses min over cells (global) or each cell's own value (dtlocal)"""
    iname = str(rng.choice(["explicit", "rk2", "rk3ssp", "rk4", "lsrk25bb", "implicit", "cranknicolson"]))
    dtlocal = bool(idx % 2)
    s = gen.scenario1d(rng, nmin=3, nmax=12, mach_max=1.2, ratio=4.0, fluxes=gen.UPWIND_FLUXES, recons=["extrapol1", "muscl_minmod", "extrapol2"],
                       dkind="smooth" if iname in gen.IMPLICIT else None, anysection=0.6)
    cfl = float(rng.uniform(0.05, 0.4))
    nstep = int(rng.integers(1, 7))
    hist = int(rng.integers(3))       # 0: fresh solver; 1: the solver has solved before with another CFL; 2: ... and the observed call is a restart
    ctx.describe(integrator=iname, dtlocal=dtlocal, cfl=cfl, nstep=nstep, history=["fresh", "solve(other cfl) before", "solve(other cfl) then restart"][hist], **s.desc())
    solver = gen.integ(iname)(s.mesh, s.disc)
    f0 = s.field
    if hist:
        pre = solver.solve(s.field, cfl * float(rng.choice([0.45, 1.7])), stop={"maxit": 2})
        if hist == 2:
            f0 = pre[-1]
    if not all(np.all(np.isfinite(d)) for d in f0.data):
        raise core.Skip("nonfinite")
    (solver.restart if hist == 2 else solver.solve)(f0, cfl, stop={"maxit": nstep}, directives={"dtlocal": True} if dtlocal else {})
    log = solvelog.LOGS[-1]
    cls = "solve:local" if dtlocal else "solve:global"
    for it in log.iterations():
        # the cell time steps are recomputed here from the trajectory state and the CFL number of THIS call (not taken from a recorded
        # calc_timestep event: an integrator that does not ask again would otherwise not be noticed)
        with probes.quiet():
            cell_dt = np.asarray(s.disc.calc_timestep(ffield.fdata(s.model, s.mesh, it["from"]["data"], t=it["from"]["time"]), cfl), float)
        used = it["main"]["dt"]
        if not np.all(np.isfinite(cell_dt)):
            continue
        if dtlocal:
            ok = np.ndim(used) == 1 and np.array_equal(np.asarray(used, float), cell_dt)
        else:
            ok = np.ndim(used) == 0 and float(used) == float(np.min(cell_dt))
        ctx.true(cls, ok, "solve/%s-step-not-from-cell-time-steps" % ("local" if dtlocal else "global"), {"used": used, "cell values": cell_dt}, cls=cls)
        # time increment of the iteration = min over cells
        adv = it["main"]["t1"] - it["main"]["t0"]
        mn = float(np.min(cell_dt))
        ctx.close(cls + ":increment", abs(adv - mn) / (mn + 1e9 * 64 * np.spacing(abs(it["main"]["t0"]) + mn)), 1e-9, "solve/time-increment-not-min-cell-time-step", {"advance": adv, "min": float(np.min(cell_dt))}, cls=cls)
    # "each cell's own value" is what ADVANCES the cell, not only what is handed to step(): the update of the last iteration is
    # recomputed with one time step per cell -- forward Euler: dQ_i = dt_i R_i; implicit / Crank-Nicolson: the linearised system
    # (D - theta J) dQ = R with D = diag(1/dt of the cell of each unknown) and J the Jacobian the integrator holds after that step
    its = log.iterations()
    if dtlocal and its and iname in ("explicit", "implicit", "cranknicolson") and all(np.all(np.isfinite(d)) for d in its[-1]["main"]["data"]):
        frm, new = its[-1]["from"], its[-1]["main"]["data"]
        neq, n = s.model.neq, s.mesh.ncell
        with probes.quiet():
            ff = ffield.fdata(s.model, s.mesh, frm["data"], t=frm["time"])
            cell_dt = np.asarray(s.disc.calc_timestep(ff, cfl), float)
            R = [np.array(r, float, copy=True) for r in s.disc.rhs(ff)]
        if np.all(np.isfinite(cell_dt)) and all(np.all(np.isfinite(r)) for r in R):
            if iname == "explicit":
                exp = [cell_dt * R[q] for q in range(neq)]
            else:
                th = 1.0 if iname == "implicit" else 0.5
                J = np.array(solver.jacobian, float)
                rhs_ = np.zeros(n * neq)
                for q in range(neq):
                    rhs_[q::neq] = R[q]
                try:
                    M_ = np.diag(np.repeat(1.0 / cell_dt, neq)) - th * J
                    sol = np.linalg.solve(M_, rhs_)
                    exp = [sol[q::neq] for q in range(neq)] if np.linalg.cond(M_) < 1e8 else None
                except np.linalg.LinAlgError:
                    exp = None
            if exp is not None:
                for q in range(neq):
                    got = np.asarray(new[q], float) - np.asarray(frm["data"][q], float)
                    # (the update is a difference of two states: a few ulps of the state are part of it -- acoustic data)
                    sc = np.max(np.abs(exp[q])) + 1e9 * np.finfo(float).eps * np.max(np.abs(frm["data"][q])) + 1e-300
                    ctx.close("solve:local:update", float(np.max(np.abs(got - exp[q])) / sc), 1e-8, "solve/local-time-steps/cell-not-advanced-with-its-own-time-step/%s" % iname, {"eq": q}, cls="solve:local")
    ctx.nontrivial("solve", iname, dtlocal, cfl, s.desc())
