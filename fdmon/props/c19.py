"""C19 source terms: twin discretisations (with / without sources) on the same field through the real rhs."""
import itertools

import numpy as np

import flowdyn.modeldisc as md
import flowdyn.modelphy.euler as euler
import flowdyn.modelphy.shallowwater as shw

from .. import core, gen, probes
from ..core import group

TOL = 1e-12


def setup(ctx):
    ctx.require("euler1d", "shallowwater", "nozzle-geometric", "nozzle-constant-section", "nozzle-user-sources", "called-once", "nozzle-interleaved")


class Counted:
    """source callable with a call counter: a*sin(w x) + b*Q[k] + c*Q[0]*x"""
    def __init__(self, rng, neq, i):
        self.a, self.b, self.c, self.w = (float(np.round(rng.uniform(-1, 1), 3)) for _ in range(4))
        self.k = int(rng.integers(neq)); self.i = i; self.calls = 0
        self.mode = str(rng.choice(["fresh", "fresh", "stored", "state", "scalar", "scalar0d", "list"])); self.table = None

    def __call__(self, x, q):
        self.calls += 1
        if self.mode == "stored":          # a profile tabulated once and returned as is at every call (persistent array)
            if self.table is None or self.table.shape != np.shape(x):
                self.table = self.a * np.sin(self.w * x) + self.c * x
                self.table0 = self.table.copy()
            return self.table
        if self.mode == "state":           # a component of the state handed back directly (aliases the caller's array)
            return q[self.k]
        if self.mode == "scalar":          # a uniform source written as one python number (friction, gravity)
            return self.a
        if self.mode == "scalar0d":        # ... or as a numpy scalar / 0-d array
            return np.float64(self.a) if self.k % 2 else np.array(self.a)
        if self.mode == "list":            # ... or as a plain python list, one value per cell
            return [float(v) for v in self.a * np.sin(self.w * np.asarray(x))]
        return self.value(x, q)

    def expected(self, x, q):
        if self.mode in ("scalar", "scalar0d"):
            return np.full(np.shape(x), self.a)
        if self.mode == "list":
            return self.a * np.sin(self.w * np.asarray(x))
        if self.mode == "stored":
            return self.a * np.sin(self.w * x) + self.c * x
        if self.mode == "state":
            return np.array(q[self.k], copy=True)
        return self.value(x, q)

    def untouched(self):
        return self.mode != "stored" or self.table is None or np.array_equal(self.table, self.table0)

    def value(self, x, q):
        return self.a * np.sin(self.w * x) + self.b * q[self.k] + self.c * q[0] * x

    def desc(self):
        if self.mode == "stored":
            return "stored array %g*sin(%g x)+%g*x (same object returned at every call)" % (self.a, self.w, self.c)
        if self.mode == "state":
            return "returns Q[%d] itself" % self.k
        if self.mode in ("scalar", "scalar0d", "list"):
            return {"scalar": "python float %g", "scalar0d": "numpy scalar / 0-d array %g", "list": "python list %g*sin(w x)"}[self.mode] % self.a
        return "%g*sin(%g x)+%g*Q[%d]+%g*Q[0]*x" % (self.a, self.w, self.b, self.k, self.c)


class Counted3(Counted):
    """the same sources written with a THIRD, defaulted parameter -- the usual idiom to bind a coefficient (lambda x, q, k=0.3: -k*q[1]):
    the operator calls source(x, Q), so the coefficient is the default"""
    K = 0.625

    def __call__(self, x, q, k=K):
        return k * np.asarray(Counted.__call__(self, x, q), float)

    def expected(self, x, q):
        return self.K * np.asarray(Counted.expected(self, x, q), float)

    def value(self, x, q):
        return Counted.value(self, x, q)

    def desc(self):
        return "k * (%s) with a defaulted third parameter k=%g" % (Counted.desc(self), self.K)


def _calls(c):
    return c.counter.calls if hasattr(c, "counter") else c.calls


def _sources(rng, neq, subset):
    out = []
    for i in range(neq):
        if i not in subset:
            out.append(None)
            continue
        r = rng.random()
        if r < 0.2:
            out.append(Counted3(rng, neq, i))
        elif r < 0.3:
            # ... or as a plain function / lambda with a defaulted coefficient (no callable object): source(x, Q) = k0 * base(x, Q)
            c = Counted3(rng, neq, i)
            fn = (lambda c_: (lambda x, q, k=Counted3.K: k * np.asarray(Counted.__call__(c_, x, q), float)))(c)
            fn.expected, fn.untouched, fn.desc, fn.mode = c.expected, c.untouched, (lambda c_=c: "lambda x, q, k=%g: k*(%s)" % (Counted3.K, Counted.desc(c_))), c.mode
            fn.counter = c
            out.append(fn)
        else:
            out.append(Counted(rng, neq, i))
    live = [i for i in range(neq) if out[i] is not None]
    if len(live) >= 2 and rng.random() < 0.25:
        # the SAME callable object declared for several equations (one damping law for mass and momentum, a sponge on every
        # equation): each of those equations receives it once
        keep = live[int(rng.integers(len(live)))]
        for j in (live if rng.random() < 0.5 else live[:2] if keep in live[:2] else [keep, live[0]]):
            out[j] = out[keep]
    return out


def _mult(src, i):
    """how many equations carry the very object src[i] (it is then called that many times per evaluation)"""
    return sum(1 for s_ in src if s_ is src[i])


def _section(rng, L, kind=None):
    kind = kind or str(rng.choice(["const", "linear", "gauss", "exp", "poly"]))
    a, b = float(np.round(rng.uniform(0.3, 2), 3)), float(np.round(rng.uniform(0.1, 0.8), 3))
    f = {"const": lambda x: a + 0.0 * x, "linear": lambda x: a * (1 + b * x / L), "gauss": lambda x: a * (1 - b * np.exp(-((x - 0.45 * L) / (0.2 * L)) ** 2)),
         "exp": lambda x: a * np.exp(b * x / L), "poly": lambda x: a * (1 + b * (2 * x / L - 1) ** 2)}[kind]
    f.desc = "%s(a=%g,b=%g)" % (kind, a, b)
    if rng.random() < 0.4:
        # the geometric source depends on (dA/dx)/A only: the UNITS of the section (mm^2 ... km^2) must not matter
        sc = float(10 ** rng.uniform(-9, 9)); g = f
        f = lambda x: sc * g(x)
        f.desc = "%g * %s" % (sc, g.desc)
    return f, kind


def _subset(idx, neq):
    subs = [c for r in range(neq + 1) for c in itertools.combinations(range(neq), r)]
    return set(subs[idx % len(subs)])


def _rscale(R, extra):
    return max(max(np.max(np.abs(r)) for r in R), extra) + 1e-300


@group(quick=500, thorough=15000)
def user_sources(ctx, rng, idx):
    """euler1d / shallow water: every subset of equations (exhaustive over subsets), state- and position-dependent sources"""
    mname = ["euler1d", "shallowwater"][idx % 2]
    neq = 3 if mname == "euler1d" else 2
    sub = _subset(idx // 2, neq)
    s0 = gen.scenario1d(rng, mname=mname, mach_max=1.5, ratio=5.0, intdata=0.15, big=0.03, lscale=0.1)
    src = _sources(rng, neq, sub)
    mp = dict(s0.mparams)
    src_declared = list(src)
    model1 = euler.euler1d(gamma=mp["gamma"], source=src) if mname == "euler1d" else shw.shallowwater1d(g=mp["g"], source=src)
    # the list the caller declared is HIS: a model that edits it in place hands its own (combined, bound) callables to whoever uses that
    # list next -- another model, the caller's own bookkeeping
    if not ctx.true(mname, len(src) == len(src_declared) and all(a_ is b_ for a_, b_ in zip(src, src_declared)), "%s/callers-source-list-modified-by-the-model" % mname, None, cls=mname):
        src = src_declared
    gen.maybe_decoy(rng)
    disc1 = md.fvm(model1, s0.mesh, s0.num, numflux=s0.flux, bcL=s0.bcL, bcR=s0.bcR)
    ctx.describe(sources=[c.desc() if c else None for c in src], **s0.desc())
    R0 = [r.copy() for r in s0.disc.rhs(s0.field)]
    f1 = gen.fdata_prim(model1, s0.mesh, s0.prim)
    fcopy = [d.copy() for d in f1.data]
    x = s0.mesh.centers()
    for call in range(3):               # the operator is evaluated several times on the same objects: nothing may accumulate
        R1 = [r.copy() for r in disc1.rhs(f1)]
        if not all(np.all(np.isfinite(r)) for r in R0 + R1):
            raise core.Skip("nonfinite")
        for i in range(neq):
            if src[i] is None:
                ctx.true(mname, np.array_equal(R1[i], R0[i]), "%s/none-entry-changes-equation-%d" % (mname, i), {"max diff": np.max(np.abs(R1[i] - R0[i])), "call": call}, cls=mname)
            else:
                exp = src[i].expected(x, fcopy)
                sc = max(np.max(np.abs(R0[i])), np.max(np.abs(exp))) + 1e-300
                ctx.close(mname, np.max(np.abs((R1[i] - R0[i]) - exp)) / sc, TOL, "%s/source-not-added-once-to-its-own-equation/eq%d%s" % (mname, i, "" if call == 0 else "/repeated-call"),
                          {"subset": sorted(sub), "call": call, "source kind": src[i].mode}, cls=mname)
                ctx.true("called-once", _calls(src[i]) == (call + 1) * _mult(src, i), "%s/source-callable-not-called-exactly-once" % mname, {"calls": _calls(src[i]), "eq": i, "rhs calls": call + 1}, cls="called-once")
                ctx.true("source-array-untouched", src[i].untouched(), "%s/array-returned-by-user-source-modified" % mname, {"eq": i}, cls=mname)
        ctx.true("field-untouched", all(np.array_equal(a, b) for a, b in zip(f1.data, fcopy)), "%s/field-modified-by-rhs" % mname, None, cls=mname)
    ctx.nontrivial(mname, sorted(sub), s0.desc())


@group(quick=400, thorough=12000)
def nozzle_geometric(ctx, rng, idx):
    """R_nozzle - R_euler1d = -(1/A)(dA/dx)(rho u, rho u^2, rho u H); constant section gives exactly the Euler operator"""
    s0 = gen.scenario1d(rng, mname="euler1d", mach_max=1.5, ratio=5.0, intdata=0.15)
    sec, kind = _section(rng, s0.mesh.length, "const" if idx % 4 == 0 else None)
    gam = s0.mparams["gamma"]
    modeln = euler.nozzle(sec, gamma=gam)
    gen.maybe_decoy(rng)
    discn = md.fvm(modeln, s0.mesh, s0.num, numflux=s0.flux, bcL=s0.bcL, bcR=s0.bcR)
    interleaved = bool(rng.random() < 0.5)
    # call history around the evaluation that is judged: the SAME nozzle model object is handed to a second discretisation on another
    # mesh (same or other cell count) -- before the first one is used at all, after it has been used once, or used itself in between.
    # The geometric source of the discretisation under test must be that of ITS mesh in every history
    history = str(rng.choice(["second-built-before-first-use", "first-used-then-second-built", "first-used-then-second-built-and-used"])) if interleaved else "none"
    ctx.describe(section=sec.desc, same_model_object_discretised_on_another_mesh=history, **s0.desc())
    fn = gen.fdata_prim(modeln, s0.mesh, s0.prim)
    if interleaved:
        if history != "second-built-before-first-use":
            with probes.quiet(), np.errstate(all="ignore"):
                discn.rhs(fn)
        mesh2, _ = gen.mesh1d(rng, ncell=s0.mesh.ncell if rng.random() < 0.6 else None)
        disc2 = md.fvm(modeln, mesh2, s0.num, numflux=s0.flux, bcL=s0.bcL, bcR=s0.bcR)
        if history == "first-used-then-second-built-and-used":
            x2 = mesh2.centers()
            with probes.quiet(), np.errstate(all="ignore"):
                disc2.rhs(gen.fdata_prim(modeln, mesh2, [np.full(mesh2.ncell, float(np.mean(s0.prim[0]))), 0.1 * np.sin(x2), np.full(mesh2.ncell, float(np.mean(s0.prim[2])))]))
        ctx.ev("nozzle-interleaved")
        ctx.info.setdefault("nozzle_histories", {}).setdefault(history, 0)
        ctx.info["nozzle_histories"][history] += 1
    R0 = [r.copy() for r in s0.disc.rhs(s0.field)]
    Rn = [r.copy() for r in discn.rhs(fn)]
    if not all(np.all(np.isfinite(r)) for r in R0 + Rn):
        raise core.Skip("nonfinite")
    xf, xc = s0.mesh.xf, s0.mesh.centers()
    geo = (sec(xf[1:]) - sec(xf[:-1])) / (xf[1:] - xf[:-1]) / sec(xc)
    rho, u, p = s0.prim
    H = gam / (gam - 1) * p / rho + 0.5 * u * u
    exp = [-geo * rho * u, -geo * rho * u * u, -geo * rho * u * H]
    if kind == "const":
        same = all(np.array_equal(a, b) for a, b in zip(Rn, R0))
        ctx.true("nozzle-constant-section", same, "nozzle/constant-section-source-not-zero", {"max diff": max(np.max(np.abs(a - b)) for a, b in zip(Rn, R0))}, cls="nozzle-constant-section")
    for i in range(3):
        sc = max(np.max(np.abs(R0[i])), np.max(np.abs(exp[i]))) + 1e-300
        ctx.close("nozzle-geometric", np.max(np.abs((Rn[i] - R0[i]) - exp[i])) / sc, 1e-11, "nozzle/geometric-source-wrong/eq%d%s" % (i, "/model-object-discretised-on-another-mesh-in-between" if interleaved else ""),
                  {"section": sec.desc}, cls="nozzle-geometric")
    ctx.nontrivial("nozzle", sec.desc, s0.desc())


@group(quick=400, thorough=12000)
def nozzle_user(ctx, rng, idx):
    """nozzle with user sources = nozzle without + user source on its own equation (every subset of equations)"""
    sub = _subset(idx, 3)
    s0 = gen.scenario1d(rng, mname="euler1d", mach_max=1.5, ratio=5.0, intdata=0.15)
    sec, kind = _section(rng, s0.mesh.length)
    gam = s0.mparams["gamma"]
    src = _sources(rng, 3, sub)
    ctx.describe(section=sec.desc, sources=[c.desc() if c else None for c in src], **s0.desc())
    m0 = euler.nozzle(sec, gamma=gam)
    src_declared = list(src)
    m1 = euler.nozzle(sec, gamma=gam, source=src)
    if not ctx.true("nozzle-user-sources", len(src) == len(src_declared) and all(a_ is b_ for a_, b_ in zip(src, src_declared)), "nozzle/callers-source-list-modified-by-the-model", None, cls="nozzle-user-sources"):
        src = src_declared
    gen.maybe_decoy(rng)
    d0 = md.fvm(m0, s0.mesh, s0.num, numflux=s0.flux, bcL=s0.bcL, bcR=s0.bcR)
    d1 = md.fvm(m1, s0.mesh, s0.num, numflux=s0.flux, bcL=s0.bcL, bcR=s0.bcR)
    f0 = gen.fdata_prim(m0, s0.mesh, s0.prim); f1 = gen.fdata_prim(m1, s0.mesh, s0.prim)
    R0 = [r.copy() for r in d0.rhs(f0)]
    fcopy = [d.copy() for d in f1.data]
    x = s0.mesh.centers()
    for call in range(3):
        R1 = [r.copy() for r in d1.rhs(f1)]
        if not all(np.all(np.isfinite(r)) for r in R0 + R1):
            raise core.Skip("nonfinite")
        for i in range(3):
            if src[i] is None:
                ctx.true("nozzle-user-sources", np.array_equal(R1[i], R0[i]), "nozzle/none-entry-changes-equation-%d" % i, {"call": call, "max diff": np.max(np.abs(R1[i] - R0[i]))}, cls="nozzle-user-sources")
            else:
                exp = src[i].expected(x, fcopy)
                sc = max(np.max(np.abs(R0[i])), np.max(np.abs(exp))) + 1e-300
                ctx.close("nozzle-user-sources", np.max(np.abs((R1[i] - R0[i]) - exp)) / sc, 1e-11, "nozzle/user-source-not-added-to-geometric-source/eq%d%s" % (i, "" if call == 0 else "/repeated-call"),
                          {"subset": sorted(sub), "call": call, "source kind": src[i].mode}, cls="nozzle-user-sources")
                ctx.true("called-once", _calls(src[i]) == (call + 1) * _mult(src, i), "nozzle/source-callable-not-called-exactly-once", {"calls": _calls(src[i]), "eq": i}, cls="called-once")
                ctx.true("source-array-untouched", src[i].untouched(), "nozzle/array-returned-by-user-source-modified", {"eq": i}, cls="nozzle-user-sources")
        ctx.true("field-untouched", all(np.array_equal(a, b) for a, b in zip(f1.data, fcopy)), "nozzle/field-modified-by-rhs", None, cls="nozzle-user-sources")
    # a second nozzle built afterwards without sources must not have inherited them (no shared state between instances)
    m2 = euler.nozzle(sec, gamma=gam)
    d2 = md.fvm(m2, s0.mesh, s0.num, numflux=s0.flux, bcL=s0.bcL, bcR=s0.bcR)
    R2 = d2.rhs(gen.fdata_prim(m2, s0.mesh, s0.prim))
    ctx.true("nozzle-user-sources", all(np.array_equal(a, b) for a, b in zip(R2, R0)), "nozzle/sources-leak-between-instances", None, cls="nozzle-user-sources")
    ctx.nontrivial("nozzle-user", sorted(sub), sec.desc, s0.desc())
