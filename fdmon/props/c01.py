"""C01 discrete conservation.  Monitor = after-hook on the real rhs (1D and 2D) + offline check of solve results."""
import numpy as np

import flowdyn.modeldisc as md
import flowdyn.mesh2d as fmesh2d
import flowdyn.xnum as xnum
import flowdyn.field as ffield
import flowdyn.modelphy.euler as euler

from .. import core, gen, probes
from ..core import group

CTX = None
TOL_RHS = 1e-12       # measured worst on the unchanged tree ~3e-16 (normalised by n*max|F|)
TOL_EXPL = 1e-12      # solve, explicit integrators (measured 2e-16)
TOL_IMPL = 5e-6       # solve, implicit integrators: x max(1, CFL) (sqrt(eps) finite-difference Jacobian: columns conservative to ~1e-8; worst seen 1.4e-6 in 7 thorough sweeps)
_count = {"rhs": 0}
_capture = {"on": False, "log": []}      # boundary fluxes + time of every rhs call made during an observed explicit-Euler solve


def _bcclass(tL, tR):
    if tL == "per" and tR == "per":
        return "per"
    if tL == "sym" and tR == "sym":
        return "sym"
    return "open"


def monitor_rhs1d(args, kwargs, result, tok):
    """runs on EVERY fvm1d.rhs return: telescoping balance with the real volumes and the face fluxes left behind"""
    ctx = CTX
    disc = args[0]
    _count["rhs"] += 1
    if _capture["on"]:
        _capture["log"].append((disc.field.time, [float(np.asarray(disc.flux[i])[0]) for i in range(disc.neq)], [float(np.asarray(disc.flux[i])[disc.nelem]) for i in range(disc.neq)]))
    if not probes.take("rhs"):
        return
    n = disc.nelem
    vol = disc.mesh.vol()
    bcc = _bcclass(disc.bcL["type"], disc.bcR["type"])
    wall_invariant = {"euler": (0, 2), "shallowwater": (0,)}.get(disc.model.equation, ())
    for i in range(disc.neq):
        F = np.asarray(disc.flux[i], dtype=float)
        R = np.asarray(result[i], dtype=float)
        if not (np.all(np.isfinite(F)) and np.all(np.isfinite(R))):
            ctx.skip("rhs1d:nonfinite")
            continue
        src = 0.0
        sscale = 0.0
        declared = DECLARED.get(id(disc.model))
        if declared is not None:
            # the sources as the CALLER declared them (user functions, plus the nozzle's geometric terms from their formula), not what the
            # model object says about itself
            if declared[i] is not None:
                with probes.quiet():
                    s = np.asarray(declared[i](np.asarray(disc.mesh.centers(), float), [np.asarray(q, float) for q in disc.qdata], disc.mesh), float) * np.ones(n)
                src = float(np.sum(vol * s)); sscale = float(np.sum(vol * np.abs(s)))
        elif disc.model.source and disc.model.source[i]:
            with probes.quiet():
                s = disc.model.source[i](disc.mesh.centers(), disc.qdata)
            src = float(np.sum(vol * s)); sscale = float(np.sum(vol * np.abs(s)))
        scale = n * float(np.max(np.abs(F))) + sscale
        if scale == 0.0:
            ctx.true("rhs1d:zero", np.all(R == 0), "rhs1d/zero-flux-nonzero-residual", cls="rhs1d:" + bcc)
            continue
        integral = float(np.sum(vol * R))
        expected = F[0] - F[n] + src
        ctx.close("rhs1d:balance", (integral - expected) / scale, TOL_RHS, "rhs1d/balance/" + bcc,
                  {"eq": i, "integral": integral, "expected": expected, "scale": scale}, cls="rhs1d:" + bcc)
        if bcc == "per":
            ctx.close("rhs1d:seamflux", (F[0] - F[n]) / scale, TOL_RHS, "rhs1d/periodic-end-faces-differ", {"eq": i, "F0": F[0], "Fn": F[n]})
            if not sscale:
                ctx.close("rhs1d:per-invariant", integral / scale, TOL_RHS, "rhs1d/periodic-integral-changes", {"eq": i})
        if bcc == "sym" and i in wall_invariant:
            ctx.close("rhs1d:wallflux", max(abs(F[0]), abs(F[n])) / scale * n, 1e-11, "rhs1d/wall-flux-nonzero", {"eq": i, "F0": F[0], "Fn": F[n]})


def monitor_rhs2d(args, kwargs, result, tok):
    ctx = CTX
    disc = args[0]
    m = disc.mesh
    nx, ny, dx, dy = m.nx, m.ny, m.dx(), m.dy()
    vol = m.vol()
    nxf = ny * (nx + 1)
    types = {t: disc._bclist[t]["type"] for t in m.list_of_bctags()}
    allper = all(v == "per" for v in types.values())
    for i in range(disc.neq):
        F = np.asarray(disc.flux[i], float)
        R = np.asarray(result[i], float)
        if not (np.all(np.isfinite(F)) and np.all(np.isfinite(R))):
            ctx.skip("rhs2d:nonfinite")
            continue
        comps = [(F, R)] if F.ndim == 1 else [(F[k], R[k]) for k in range(F.shape[0])]
        for k, (f, r) in enumerate(comps):
            # boundary faces found geometrically here (independent of mesh.index_of_bc)
            left = f[np.arange(ny) * (nx + 1)]; right = f[np.arange(ny) * (nx + 1) + nx]
            bottom = f[nxf + np.arange(nx)]; top = f[nxf + ny * nx + np.arange(nx)]
            expected = dy * (np.sum(left) - np.sum(right)) + dx * (np.sum(bottom) - np.sum(top))
            scale = (nx * ny) * float(np.max(np.abs(f))) * (dx + dy)
            integral = float(np.sum(vol * r))
            if scale == 0.0:
                ctx.true("rhs2d:zero", np.all(r == 0), "rhs2d/zero-flux-nonzero-residual", cls="rhs2d")
                continue
            ctx.close("rhs2d:balance", (integral - expected) / scale, TOL_RHS, "rhs2d/balance",
                      {"eq": i, "comp": k, "integral": integral, "expected": expected}, cls="rhs2d:" + ("per" if allper else "mixed"))
            if allper:
                ctx.close("rhs2d:per-invariant", integral / scale, TOL_RHS, "rhs2d/periodic-integral-changes", {"eq": i, "comp": k})
            if i in (0, 2):
                for tag, vals in (("left", left), ("right", right), ("bottom", bottom), ("top", top)):
                    if types[tag] == "sym":
                        ctx.close("rhs2d:wallflux", np.max(np.abs(vals)) / scale * nx * ny * (dx + dy), 1e-11, "rhs2d/wall-flux-nonzero", {"eq": i, "tag": tag})


def setup(ctx):
    global CTX
    CTX = ctx
    probes.hook(md.fvm1d, "rhs", after=monitor_rhs1d)
    probes.hook(md.fvm2dcart, "rhs", after=monitor_rhs2d)
    ctx.require("rhs1d:per", "rhs1d:sym", "rhs1d:open", "rhs2d:per", "rhs2d:mixed", "solve:explicit", "solve:implicit", "solve:open-boundaries", "history:directives", "solve:large")


def teardown(ctx):
    ctx.info["rhs_events_observed"] = _count["rhs"]
    for e in probes.errors():
        ctx.harness_error(e)


# ------------------------------------------------------------------------------------------ groups
@group(quick=1600, thorough=60000)
def rhs1d(ctx, rng, idx):
    """one real rhs evaluation on a hostile configuration; judged by the rhs monitor"""
    big = rng.random() < 0.2
    s = gen.scenario1d(rng, nmin=1 if rng.random() < 0.15 else 3, nmax=24, ratio=1e6 if big else 10.0,
                       mach_max=3.0, intdata=0.1, big=0.03, lscale=0.1)
    if s.mesh.ncell < 2 and s.bckind == "per" and s.rname != "extrapol1":
        pass  # single periodic cell: still must conserve
    ctx.describe(**s.desc())
    r = s.disc.rhs(s.field)
    if all(np.all(np.isfinite(x)) for x in r) and any(np.any(x != 0) for x in r):
        ctx.nontrivial(s.desc())
    ctx.info.setdefault("rhs1d_model_flux", {}).setdefault(s.cls(), 0)
    ctx.info["rhs1d_model_flux"][s.cls()] += 1
    ctx.info.setdefault("rhs1d_recon", {}).setdefault(s.rname.split("(")[0], 0)
    ctx.info["rhs1d_recon"][s.rname.split("(")[0]] += 1
    ctx.info.setdefault("rhs1d_mesh", {}).setdefault(s.mdesc["kind"], 0)
    ctx.info["rhs1d_mesh"][s.mdesc["kind"]] += 1


DECLARED = {}      # id(model) -> per-equation sources as declared by the group that built the model (callables (x, q, mesh) or None)


def _src(rng, neq):
    """random per-equation sources (state and position dependent), some None"""
    out, desc = [], []
    for i in range(neq):
        if rng.random() < 0.4:
            out.append(None); desc.append(None)
        else:
            a, b = float(np.round(rng.uniform(-1, 1), 3)), float(np.round(rng.uniform(-1, 1), 3))
            out.append(lambda x, q, a=a, b=b, i=i: a * np.sin(x) + b * q[i])
            desc.append("%g*sin(x)+%g*q[%d]" % (a, b, i))
    return out, desc


@group(quick=300, thorough=10000)
def rhs1d_sources(ctx, rng, idx):
    """operator with declared sources: integral changes by boundary fluxes + integral of the sources -- the sources being what the
    caller declared (for the nozzle: each user function PLUS the geometric term -(1/A)(dA/dx) x flux of its equation)"""
    mname = str(rng.choice(["euler1d", "shallowwater", "nozzle"]))
    neq = 2 if mname == "shallowwater" else 3
    src, sdesc = _src(rng, neq)
    if mname == "nozzle" and rng.random() < 0.7:          # several DIFFERENT user sources at once
        src2, sdesc2 = _src(rng, neq)
        src = [a_ or b_ for a_, b_ in zip(src, src2)]; sdesc = [a_ or b_ for a_, b_ in zip(sdesc, sdesc2)]
    live_ = [i for i in range(neq) if src[i] is not None]
    if len(live_) >= 2 and rng.random() < 0.25:          # the SAME callable object declared for several equations
        for j in live_[1:]:
            src[j], sdesc[j] = src[live_[0]], sdesc[live_[0]]
    section = None
    if mname == "nozzle":
        aa, bb = float(np.round(rng.uniform(0.5, 2), 2)), float(np.round(rng.uniform(0.05, 0.5), 2))
        section = (lambda x: aa * (1.0 + bb * np.sin(0.9 * x) ** 2)) if rng.random() < 0.8 else (lambda x: aa + 0.0 * x)
        section.desc = "%g*(1+%g*sin(0.9x)^2)" % (aa, bb)
    s = gen.scenario1d(rng, mname=mname, source=src, section=section, intdata=0.1 if mname != "nozzle" else 0.0)
    if mname == "nozzle":
        gam = s.model.gamma
        def geo(i):
            def g(x, q, mesh, i=i):
                xf = np.asarray(mesh.xf, float)
                gt = (section(xf[1:]) - section(xf[:-1])) / (xf[1:] - xf[:-1]) / section(x)
                rho, mom, E = q
                u = mom / rho; pr = (gam - 1) * (E - 0.5 * mom * u)
                return -gt * [mom, mom * u, u * (E + pr)][i]
            return g
        decl = [(lambda x, q, mesh, f_=src[i], g_=geo(i): (f_(x, q) if f_ else 0.0) + g_(x, q, mesh)) for i in range(3)]
    else:
        decl = [((lambda x, q, mesh, f_=f: f_(x, q)) if f else None) for f in src]
    DECLARED[id(s.model)] = decl
    ctx.describe(sources=sdesc, **s.desc())
    try:
        s.disc.rhs(s.field)
    finally:
        DECLARED.pop(id(s.model), None)
    ctx.nontrivial(s.desc(), sdesc)


def bc2d(rng, m, prim, gam):
    """boundary dictionary for a 2D mesh: periodic pairs, walls or open conditions"""
    bcl = {}
    rho, p = float(np.mean(prim[0])), float(np.mean(prim[2]))
    for pair in (("left", "right"), ("bottom", "top")):
        k = rng.random()
        if k < 0.4:
            for t in pair:
                bcl[t] = {"type": "per"}
        else:
            for t in pair:
                ty = str(rng.choice(["sym", "sym", "insub", "insup", "outsub", "outsup", "dirichlet"]))
                d = {"type": ty}
                if ty in ("insub", "insup"):
                    pt, rtt = gen.totals(rho, (0.5 if ty == "insub" else 1.8) * np.sqrt(gam * p / rho), p, gam)
                    d.update(ptot=float(pt), rttot=float(rtt))
                    if ty == "insup":
                        d["p"] = p
                        if rng.random() < 0.5:
                            d["angle"] = float(np.round(rng.uniform(-60, 60), 1))
                if ty == "outsub":
                    d["p"] = p * float(rng.uniform(0.8, 1.2))
                if ty == "dirichlet":
                    nf = m.ny if t in ("left", "right") else m.nx
                    d["prim"] = [rho * np.ones(nf), np.vstack([0.3 * np.ones(nf), -0.2 * np.ones(nf)]), p * np.ones(nf)]
                bcl[t] = d
    return bcl


def scenario2d(rng, allper=False, nmax=6, big=0.0):
    m, mdesc = gen.mesh2d(rng, nmax=nmax, big=big)
    gam = float(rng.choice([1.4, 5.0 / 3.0, 1.2]))
    model = euler.euler2d(gamma=gam)
    n = m.ncell
    rho = 10 ** rng.uniform(-1, 1) * (1 + 0.5 * rng.uniform(-1, 1, n))
    p = 10 ** rng.uniform(-1, 1) * (1 + 0.5 * rng.uniform(-1, 1, n))
    c = np.sqrt(gam * p / rho)
    V = np.vstack([rng.uniform(-2, 2, n) * c, rng.uniform(-2, 2, n) * c])
    if rng.random() < 0.1:
        V = V * float(10 ** rng.uniform(-14, -4))          # nearly at rest everywhere (acoustic amplitudes)
    prim = [rho, V, p]
    bcl = {t: {"type": "per"} for t in m.list_of_bctags()} if allper else bc2d(rng, m, prim, gam)
    k = float(rng.choice([-1.0, 0.0, 1.0 / 3.0, 0.5, 1.0, np.round(rng.uniform(-1, 1), 3)]))
    num, rname = (xnum.extrapol2d1(), "extrapol2d1") if rng.random() < 0.4 else (xnum.extrapol2dk(k), "extrapol2dk(%g)" % k)
    flux = str(rng.choice(["centered", "hlle"]))
    disc = md.fvm2d(model, m, num, bclist=bcl, numflux=flux)
    f = ffield.fdata(model, m, model.prim2cons(prim))
    if rng.random() < 0.15:
        gen.exotic_layout(f, int(rng.integers(1, 4)))          # same values, another memory layout (Fortran order / strided views)
    desc = {"model": "euler2d", "gamma": gam, "mesh": mdesc, "recon": rname, "flux": flux,
            "bc": {t: {kk: vv for kk, vv in d.items() if kk != "prim"} for t, d in bcl.items()}, "prim": prim}
    return m, model, disc, f, desc


@group(quick=500, thorough=20000)
def rhs2d(ctx, rng, idx):
    m, model, disc, f, desc = scenario2d(rng, allper=rng.random() < 0.4, big=0.03)
    ctx.describe(**desc)
    disc.rhs(f)
    ctx.nontrivial(desc)


def _integral(mesh, f, neq):
    vol = mesh.vol()
    out = []
    for q in f.data:
        q = np.asarray(q, float)
        out.append(np.sum(vol * q, axis=-1))
    return out


STAB = {"explicit": 0.9, "forwardeuler": 0.9, "rk2": 0.9, "rk2_heun": 0.9, "rk3_heun": 1.2, "rk3ssp": 1.2, "rk4": 1.3,
        "lsrk25bb": 1.5, "lsrk26bb": 1.5, "lsrk4": 1.3}


@group(quick=420, thorough=12000)
def solve1d(ctx, rng, idx):
    """short solves, global time step: integrals invariant (periodic: all; walls: mass/energy/height)"""
    iname = gen.ALL_INTEG[idx % len(gen.ALL_INTEG)]
    implicit = iname in gen.IMPLICIT
    bc = str(rng.choice(["per", "sym"]))
    if implicit:
        # large CFL only for the linear model with linear reconstructions (DESIGN 3/C01)
        big = rng.random() < 0.5
        if big:
            s = gen.scenario1d(rng, mname="convection", bc="per", recons=gen.LINEAR_RECONS, nmax=12)
            cfl = float(10 ** rng.uniform(0, 2))
        else:
            s = gen.scenario1d(rng, bc=bc, nmax=10, dkind="smooth", mach_max=0.8, ratio=3.0,
                               recons=["extrapol1", "extrapol2", "extrapol3", "extrapolk", "muscl_minmod", "muscl_vanalbada"],
                               fluxes=gen.UPWIND_FLUXES)
            cfl = float(rng.uniform(0.05, 0.9))
    else:
        s = gen.scenario1d(rng, bc=bc, nmax=24, fluxes=gen.UPWIND_FLUXES, mach_max=2.0)
        stab = STAB[iname] * (1.0 if s.rname == "extrapol1" else 0.45)
        cfl = float(rng.uniform(0.01, stab))
    nstep = int(rng.integers(1, 11 if not implicit else 6))
    ctx.describe(integrator=iname, cfl=cfl, nstep=nstep, **s.desc())
    solver = gen.integ(iname)(s.mesh, s.disc)
    I0 = _integral(s.mesh, s.field, s.model.neq)
    A0 = [np.sum(s.mesh.vol() * np.abs(q)) for q in s.field.data]
    try:
        res = solver.solve(s.field, cfl, stop={"maxit": nstep})
    except np.linalg.LinAlgError:
        raise core.Skip("singular implicit system")
    fend = res[-1]
    if s.bckind == "open":
        ctx.skip("solve1d:open-bc")
        return
    if not all(np.all(np.isfinite(q)) for q in fend.data):
        ctx.skip("solve1d:nonfinite-end")
        return
    I1 = _integral(s.mesh, fend, s.model.neq)
    A1 = [np.sum(s.mesh.vol() * np.abs(q)) for q in fend.data]
    keep = range(s.model.neq) if s.bckind == "per" else {"euler": (0, 2), "shallowwater": (0,)}[s.model.equation]
    tol = TOL_IMPL * max(1.0, cfl) if implicit else TOL_EXPL
    for i in keep:
        scale = max(A0[i], A1[i]) * max(1, nstep)
        if implicit and i == 1 and s.model.equation in ("euler", "shallowwater"):
            # implicit updates are conservative only to the accuracy of the code's finite-difference Jacobian, whose momentum
            # column is perturbed by sqrt(eps)*mean|rho u|: at low Mach number its noise is relative to rho*c, not to |rho u|
            cc = np.sqrt(s.model.gamma * s.prim[2] / s.prim[0]) if s.model.equation == "euler" else np.sqrt(s.model.g * s.prim[0])
            scale = max(scale, float(np.sum(s.mesh.vol() * s.prim[0] * cc)) * max(1, nstep))
        if scale == 0:
            continue
        ctx.close("solve:explicit" if not implicit else "solve:implicit", (I1[i] - I0[i]) / scale, tol,
                  "solve1d/%s/integral-drift" % ("implicit" if implicit else "explicit"),
                  {"eq": i, "I0": I0[i], "I1": I1[i], "integrator": iname, "cfl": cfl})
    ctx.info.setdefault("solve_integrators", {}).setdefault(iname, 0)
    ctx.info["solve_integrators"][iname] += 1
    ctx.nontrivial("solve", iname, cfl, nstep, s.desc())


@group(quick=40, thorough=1000)
def solve1d_large(ctx, rng, idx):
    """the same invariants on LARGE systems (90-400 cells, several hundred unknowns: a size-dependent code path -- another linear
    solver, a vectorised branch -- is only taken there), implicit and explicit integrators, smooth data and one-directional
    (fully supersonic / subsonic) streams, periodic and wall boundaries"""
    iname = ["implicit", "cranknicolson", "gear", "backwardeuler", "rk3ssp", "explicit", "trapezoidal", "rk4"][idx % 8]
    implicit = iname in gen.IMPLICIT
    bc = str(rng.choice(["per", "per", "sym"]))
    mname = str(rng.choice(["euler1d", "euler1d", "nozzle", "shallowwater", "burgers", "convection"]))
    neq = {"euler1d": 3, "nozzle": 3, "shallowwater": 2}.get(mname, 1)
    n = -(-257 // neq) + int(rng.integers(0, 16)) if implicit else int(rng.integers(90, 400))      # implicit: just above 256 unknowns
    s = gen.scenario1d(rng, mname=mname, bc=bc, ncell=n, dkind=str(rng.choice(["smooth", "stream", "stream"])), mach_max=2.5, ratio=2.0,
                       recons=["extrapol1", "extrapol1", "extrapol2", "muscl_minmod", "extrapol3"], meshkinds=["uni", "refined", "morphed"], warm=False,
                       fluxes=gen.UPWIND_FLUXES if implicit else None)
    cfl = float(rng.uniform(0.2, 2.0)) if implicit else float(rng.uniform(0.05, 0.4))
    nstep = int(rng.integers(1, 4)) if implicit else int(rng.integers(2, 8))
    ctx.describe(integrator=iname, cfl=cfl, nstep=nstep, unknowns=s.model.neq * s.mesh.ncell, **{k: v for k, v in s.desc().items() if k != "prim"}, prim_head=[p[:4] for p in s.prim])
    solver = gen.integ(iname)(s.mesh, s.disc)
    I0 = _integral(s.mesh, s.field, s.model.neq)
    A0 = [np.sum(s.mesh.vol() * np.abs(q)) for q in s.field.data]
    try:
        with probes.quiet():        # the operator monitor has its own large-mesh cases; here the integrals of the solve are judged
            res = solver.solve(s.field, cfl, stop={"maxit": nstep})
    except np.linalg.LinAlgError:
        raise core.Skip("singular implicit system")
    fend = res[-1]
    if not all(np.all(np.isfinite(q)) for q in fend.data):
        ctx.skip("solve1d_large:nonfinite-end")
        return
    I1 = _integral(s.mesh, fend, s.model.neq)
    A1 = [np.sum(s.mesh.vol() * np.abs(q)) for q in fend.data]
    if implicit:
        # a linearised implicit step at CFL > 1 with a limiter / an undamped scheme can leave the admissible set or blow up (density
        # x340 in one step in a thorough-tier witness): the sqrt(eps) Jacobian of such a state says nothing about conservation
        with probes.quiet():
            dtend = np.asarray(s.disc.calc_timestep(fend, 1.0), float)
        if not np.all(np.isfinite(dtend)) or any(a1 > 5.0 * a0 + 1e-300 for a0, a1 in zip(A0, A1) if a0 > 0):
            ctx.skip("solve1d_large:implicit-run-left-the-admissible-set-or-blew-up")
            return
    keep = range(s.model.neq) if s.bckind == "per" else {"euler": (0, 2), "shallowwater": (0,)}.get(s.model.equation, ())
    tol = TOL_IMPL * max(1.0, cfl) if implicit else TOL_EXPL
    for i in keep:
        scale = max(A0[i], A1[i]) * max(1, nstep)
        if implicit and i == 1 and s.model.equation in ("euler", "shallowwater"):
            cc = np.sqrt(s.model.gamma * s.prim[2] / s.prim[0]) if s.model.equation == "euler" else np.sqrt(s.model.g * s.prim[0])
            scale = max(scale, float(np.sum(s.mesh.vol() * s.prim[0] * cc)) * max(1, nstep))
        if scale == 0:
            continue
        ctx.close("solve:large", (I1[i] - I0[i]) / scale, tol, "solve1d-large/%s/integral-drift" % ("implicit" if implicit else "explicit"),
                  {"eq": i, "I0": I0[i], "I1": I1[i], "integrator": iname, "cfl": cfl, "unknowns": s.model.neq * s.mesh.ncell}, cls="solve:large")
    ctx.nontrivial("solve-large", iname, cfl, nstep, s.desc())


@group(quick=60, thorough=2000)
def solve2d(ctx, rng, idx):
    iname = ["explicit", "rk2", "rk3ssp", "rk4", "lsrk25bb", "rk2_heun", "implicit", "cranknicolson", "gear"][idx % 9]
    m, model, disc, f, desc = scenario2d(rng, allper=True, nmax=5 if iname in gen.EXPLICIT else 3)
    cfl = float(rng.uniform(0.05, 0.4))
    nstep = int(rng.integers(1, 6))
    ctx.describe(integrator=iname, cfl=cfl, nstep=nstep, **desc)
    solver = gen.integ(iname)(m, disc)
    I0 = _integral(m, f, 3)
    A0 = [np.sum(m.vol() * np.abs(q)) for q in f.data]
    try:
        res = solver.solve(f, cfl, stop={"maxit": nstep})
    except (ValueError, IndexError) as e:
        if iname in gen.IMPLICIT:
            # the quantifier of C01 includes euler2d x every integrator: the implicit family cannot integrate vector-valued data
            ctx.ev("solve2d")
            ctx.fail("solve2d/implicit-integrators-reject-vector-valued-fields", "%s: %s" % (type(e).__name__, e))
            return
        raise
    fend = res[-1]
    if not all(np.all(np.isfinite(q)) for q in fend.data):
        ctx.skip("solve2d:nonfinite-end")
        return
    I1 = _integral(m, fend, 3)
    for i in range(3):
        scale = max(A0[i], np.sum(m.vol() * np.abs(fend.data[i]))) * nstep
        ctx.close("solve:explicit", np.max(np.abs(np.asarray(I1[i]) - np.asarray(I0[i]))) / scale, TOL_EXPL,
                  "solve2d/explicit/integral-drift", {"eq": i, "integrator": iname}, cls="solve2d")
    ctx.nontrivial("solve2d", iname, cfl, nstep, desc)


@group(quick=120, thorough=4000)
def solve1d_open(ctx, rng, idx):
    """explicit Euler with open boundaries: the integral changes exactly by dt x (boundary fluxes recorded at every rhs call)"""
    iname = ["explicit", "forwardeuler"][idx % 2]
    s = gen.scenario1d(rng, bc="open", nmax=16, fluxes=gen.UPWIND_FLUXES, mach_max=1.5, recons=["extrapol1", "muscl_minmod", "muscl_vanleer", "extrapol2", "extrapol3"])
    cfl = float(rng.uniform(0.05, 0.4))
    nstep = int(rng.integers(1, 9))
    ctx.describe(integrator=iname, cfl=cfl, nstep=nstep, **s.desc())
    I0 = _integral(s.mesh, s.field, s.model.neq)
    _capture["on"], _capture["log"] = True, []
    try:
        res = gen.integ(iname)(s.mesh, s.disc).solve(s.field, cfl, stop={"maxit": nstep})
    finally:
        _capture["on"] = False
    fend = res[-1]
    log = _capture["log"]
    if len(log) != nstep or not all(np.all(np.isfinite(q)) for q in fend.data):
        ctx.skip("solve1d_open:nonfinite-or-extra-rhs")
        return
    times = [l[0] for l in log] + [fend.time]
    I1 = _integral(s.mesh, fend, s.model.neq)
    for i in range(s.model.neq):
        exp = I0[i] + sum((times[k + 1] - times[k]) * (log[k][1][i] - log[k][2][i]) for k in range(nstep))
        scale = np.sum(s.mesh.vol() * np.abs(s.field.data[i])) + sum((times[k + 1] - times[k]) * (abs(log[k][1][i]) + abs(log[k][2][i])) for k in range(nstep)) + 1e-300
        ctx.close("solve:open-boundaries", (I1[i] - exp) / scale, 1e-12, "solve1d/open/integral-not-changed-by-boundary-fluxes", {"eq": i, "I0": I0[i], "I1": I1[i], "expected": exp}, cls="solve:open-boundaries")
    ctx.nontrivial("open", iname, cfl, nstep, s.desc())


@group(quick=150, thorough=5000)
def history_directives(ctx, rng, idx):
    """call histories that mix solve()/restart() with and without the 'dtlocal' directive, on one integrator object and across
    objects: a solve that asks for ONE global time step must stay conservative and bit-identical whatever was asked before"""
    iname = ["explicit", "rk2", "rk3ssp", "rk4", "lsrk25bb"][idx % 5]
    s = gen.scenario1d(rng, bc="per", nmax=12, fluxes=gen.UPWIND_FLUXES, mach_max=1.2, meshkinds=["refined", "morphed", "arb"], recons=["extrapol1", "muscl_minmod", "extrapol2"])
    cfl = float(rng.uniform(0.1, 0.4))
    n1, n2 = int(rng.integers(1, 5)), int(rng.integers(1, 4))
    ctx.describe(integrator=iname, cfl=cfl, n1=n1, n2=n2, **s.desc())
    make = lambda: gen.integ(iname)(s.mesh, s.disc)
    ref = make().solve(s.field, cfl, stop={"maxit": n1 + n2})[-1]            # reference: global time step, default directives
    if not all(np.all(np.isfinite(q)) for q in ref.data):
        raise core.Skip("nonfinite")
    I0 = _integral(s.mesh, s.field, s.model.neq)
    def judge(f, what):
        same = f.time == ref.time and all(np.array_equal(a, b) for a, b in zip(f.data, ref.data))
        ctx.true("history:directives", same, "history/global-step-solve-changed-by-earlier-dtlocal-call/" + what,
                 {"dtime": f.time - ref.time, "max diff": max(np.max(np.abs(a - b)) for a, b in zip(f.data, ref.data))}, cls="history:directives")
        I1 = _integral(s.mesh, f, s.model.neq)
        for i in range(s.model.neq):
            # (relative to the larger of the initial and final magnitudes: a Burgers cell with u = 0 has an infinite time step of its own,
            # and when it is a sliver cell the neighbours' inflow blows the run up -- 1e19 in one step in a thorough-tier witness)
            sc = max(np.sum(s.mesh.vol() * np.abs(s.field.data[i])), np.sum(s.mesh.vol() * np.abs(f.data[i]))) * (n1 + n2) + 1e-300
            ctx.close("history:conservation", (I1[i] - I0[i]) / sc, TOL_EXPL, "history/global-step-solve-not-conservative-after-dtlocal-call/" + what, {"eq": i}, cls="history:directives")
    # path 1: solve() with default directives, then restart() asking for dtlocal; afterwards ordinary solves on the same and on fresh objects
    S = make()
    r1 = S.solve(s.field, cfl, stop={"maxit": n1})
    S.restart(r1[-1], cfl, stop={"maxit": 1}, directives={"dtlocal": True})
    judge(make().solve(s.field, cfl, stop={"maxit": n1 + n2})[-1], "fresh-object-default-arguments")
    judge(S.solve(s.field, cfl, stop={"maxit": n1 + n2})[-1], "same-object-default-arguments")
    # path 2: the caller's own directives dictionary is not modified
    mine = {}
    S2 = make()
    r2 = S2.solve(s.field, cfl, stop={"maxit": n1}, directives=mine)
    S2.restart(r2[-1], cfl, stop={"maxit": 1}, directives={"dtlocal": True})
    ctx.true("history:directives", mine == {}, "history/caller-directives-dictionary-modified", {"dict": mine}, cls="history:directives")
    # path 3: solve(dtlocal) then restart() WITHOUT directives continues with a global step: same as the restart on a fresh object
    S3 = make()
    S3.solve(s.field, cfl, stop={"maxit": 2}, directives={"dtlocal": True})
    a = S3.restart(r1[-1], cfl, stop={"maxit": n2})[-1]
    b = make().restart(r1[-1], cfl, stop={"maxit": n2})[-1]
    ctx.true("history:directives", a.time == b.time and all(np.array_equal(x, y) for x, y in zip(a.data, b.data)), "history/restart-without-directives-keeps-dtlocal-of-earlier-solve",
             {"dtime": a.time - b.time}, cls="history:directives")
    judge(a if False else make().restart(r1[-1], cfl, stop={"maxit": n2})[-1], "restart-fresh-object")
    ctx.nontrivial("history", iname, cfl, n1, n2, s.desc())
