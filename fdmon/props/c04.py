"""C04 convergence at design order: final fields of real solves on mesh sequences against exact solutions; packaged
reference solutions against independent solvers."""
import numpy as np

import flowdyn.mesh as fmesh
import flowdyn.modeldisc as md
import flowdyn.field as ffield
import flowdyn.xnum as xnum
import flowdyn.modelphy.convection as conv
import flowdyn.modelphy.euler as euler

from .. import core, gen, probes, refs
from ..core import group

# observed-order bands (least-squares slope of log L1 error vs log h); measured on the unchanged tree in brackets
# the lower bound is the property (design order reached); the upper bound only guards against a broken measurement
# (extrapolk with k close to 1/3 legitimately shows up to third order, e.g. 2.72 for k = 0.31)
BANDS = {"extrapol1": (0.7, 1.5), "extrapol2": (1.7, 2.7), "fromm": (1.7, 2.7), "quick": (1.7, 2.7), "centered": (1.7, 2.7),
         "extrapolk": (1.7, 3.4), "extrapol3": (2.6, 3.6), "muscl_minmod": (1.4, 2.8), "muscl_vanalbada": (1.4, 2.8),
         "muscl_vanleer": (1.4, 2.8), "muscl_superbee": (1.0, 2.8)}


def setup(ctx):
    ctx.require(*["order:" + r for r in BANDS], "riemann:hlle", "riemann:hllc", "ref:riemann", "ref:nozzle")


def _cellavg_modes(xf, modes, shift):
    """exact cell averages of sum_k a_k sin(2 pi k (x - shift)/L + phi_k) on faces xf (L = xf[-1]-xf[0])"""
    L = xf[-1] - xf[0]
    out = np.zeros(xf.size - 1)
    for k, a, ph in modes:
        w = 2 * np.pi * k / L
        prim = -a / w * np.cos(w * (xf - xf[0] - shift) + ph)
        out += (prim[1:] - prim[:-1]) / np.diff(xf)
    return out


@group(quick=len(BANDS) * 2, thorough=len(BANDS) * 40)
def convection_order(ctx, rng, idx):
    rname0 = list(BANDS)[idx % len(BANDS)]
    num_factory = lambda: gen.recon(rname0, rng=np.random.default_rng(idx), k=kk)[0]
    kk = float(np.round(rng.uniform(-0.8, 0.8), 2)) if rname0 == "extrapolk" else None
    a = float(np.round(rng.uniform(0.5, 2.0), 3) * rng.choice([-1, 1]))
    L = float(np.round(rng.uniform(0.5, 3.0), 3))
    nm = int(rng.integers(1, 4))
    # the convection equation has no scale of its own: the order does not depend on the units of the data, of the length or of the
    # speed (amplitudes of 1e-8 or 1e8, a domain of a micrometre or of a thousand kilometres, a slow or a fast wave)
    uq = float(10 ** rng.uniform(-8, 8)) if rng.random() < 0.4 else 1.0
    ux = float(10 ** rng.uniform(-6, 6)) if rng.random() < 0.4 else 1.0
    ua = float(10 ** rng.uniform(-4, 4)) if rng.random() < 0.3 else 1.0
    a, L = a * ua, L * ux
    modes = [(k, uq * float(rng.uniform(0.3, 1.0)) / k, float(rng.uniform(0, 2 * np.pi))) for k in sorted(rng.choice([1, 2, 3], nm, replace=False))]
    if rname0 in ("muscl_vanalbada", "muscl_vanleer"):
        # the smooth limiters carry an absolute regularisation (1e-20 next to a^2 + b^2): property C12 states their homogeneity only for
        # slopes above 1e-8, "up to a relative 1e-20/a^2".  Data whose typical slope (amplitude x 2 pi k / L) falls below 1e-6 are brought
        # back to 1e-6...1e-3: just above that scale, where the limiter must still behave as for slopes of order one
        S = min(abs(am) * 2 * np.pi * k / L for k, am, _ in modes)
        if S < 1e-6:
            fac = float(10 ** rng.uniform(-6, -3)) / S
            uq *= fac
            modes = [(k, am * fac, ph) for k, am, ph in modes]
    iname = str(rng.choice(["rk4", "rk3ssp"]))
    big_steps = bool(rname0 == "extrapol3" and iname == "rk4" and rng.random() < 0.7)
    # at least ~13 cells per shortest wavelength on the coarsest level (asymptotic regime), more for first order and limiters
    n0 = int(rng.choice([40, 48, 56])) * (2 if (rname0 == "extrapol1" or rname0.startswith("muscl")) else 1)
    levels = [n0 * 2 ** j for j in range(4)]
    T = float(rng.uniform(0.15, 0.3)) * L / abs(a)
    # the state is also requested at two earlier times of the same run (anywhere inside a step): every returned snapshot is a solution
    # at its own time and converges at the design order, not only the last one
    Tmid = sorted(float(T * rng.uniform(0.35, 0.95)) for _ in range(2))
    errs, hs, emax, errs_mid = [], [], [], [[], []]
    x0 = float(rng.choice([0.0, ux * np.round(rng.uniform(-3, 3), 3), -L / 2]))      # the origin of the periodic domain is arbitrary
    mk = int(rng.integers(4))                                                  # ... and so is the class that builds the uniform mesh
    for n in levels:
        mesh = [lambda: fmesh.unimesh(ncell=n, length=L, x0=x0), lambda: fmesh.mesh1d(ncell=n, length=L, x0=x0),
                lambda: fmesh.morphedmesh(ncell=n, length=L, x0=x0), lambda: fmesh.refinedmesh(ncell=n, length=L, ratio=1.0)][mk]()
        model = conv.model(a)
        disc = md.fvm(model, mesh, num_factory())
        f0 = ffield.fdata(model, mesh, [_cellavg_modes(mesh.xf, modes, 0.0)])
        cfl = 0.4 * (levels[0] / n) ** (0.0 if iname == "rk4" else 0.34) * (0.5 if rname0 == "extrapol3" else 1.0)
        cfl = min(cfl, 0.4)
        if big_steps:
            cfl = 0.8       # fourth-order time stepping well inside its stability range: steps four times longer, so that whatever is done
            #                 to the state between two steps (a request served inside a step) weighs 16 times more against the h^3 error
        sol = gen.integ(iname)(mesh, disc).solve(f0, cfl, Tmid + [T])
        fe = sol[-1]
        for j_ in range(2):
            errs_mid[j_].append(float(np.sum(mesh.vol() * np.abs(sol[j_].data[0] - _cellavg_modes(mesh.xf, modes, a * sol[j_].time))) / L))
        exact = _cellavg_modes(mesh.xf, modes, a * fe.time)
        errs.append(float(np.sum(mesh.vol() * np.abs(fe.data[0] - exact)) / L))
        emax.append(float(np.max(np.abs(fe.data[0] - exact))))
        hs.append(L / n)
    errs, hs, emax = np.array(errs), np.array(hs), np.array(emax)
    slope = float(np.polyfit(np.log(hs), np.log(errs), 1)[0])
    last = float(np.log(errs[-2] / errs[-1]) / np.log(2))
    lo, hi = BANDS[rname0]
    ctx.describe(recon=rname0 if kk is None else "extrapolk(%g)" % kk, convcoef=a, length=L, x0=x0, units={"data": uq, "length": ux, "speed": ua}, mesh_class=["unimesh", "mesh1d", "morphedmesh(identity)", "refinedmesh(ratio=1)"][mk], modes=modes, integrator=iname, levels=levels, T=T, errors=errs, slope=slope, last_order=last)
    slope = float(np.polyfit(np.log(hs[1:]), np.log(errs[1:]), 1)[0])      # three finest levels
    ctx.true("order", np.all(np.isfinite(errs)) and lo <= slope <= hi, "convection-order/%s/outside-design-band" % rname0, {"slope": slope, "band": [lo, hi], "errors": errs, "levels": levels}, cls="order:" + rname0)
    for j_ in range(2):
        em = np.array(errs_mid[j_])
        sm = float(np.polyfit(np.log(hs[1:]), np.log(em[1:]), 1)[0]) if np.all(np.isfinite(em)) and np.all(em > 0) else float("nan")
        ctx.true("order-intermediate-snapshot", lo <= sm <= hi, "convection-order/%s/intermediate-snapshot-outside-design-band" % rname0,
                 {"slope": sm, "band": [lo, hi], "errors": em, "levels": levels, "time": Tmid[j_], "T": T}, cls="order:" + rname0)
    if not rname0.startswith("muscl"):
        # linear schemes: the order holds in the maximum norm too (a first-order error confined to a few cells -- at the periodic
        # seam, say -- is invisible in L1 for a second-order scheme); limiters clip extrema, so their maximum-norm order is lower
        smax = float(np.polyfit(np.log(hs[1:]), np.log(emax[1:]), 1)[0])
        ctx.true("order-maxnorm", np.all(np.isfinite(emax)) and lo <= smax <= hi, "convection-order/%s/maximum-norm-order-outside-design-band" % rname0, {"slope": smax, "band": [lo, hi], "max errors": emax, "levels": levels}, cls="order:" + rname0)
        dm = ctx.info.setdefault("observed_slopes_maxnorm", {})
        dm.setdefault(rname0, [9.0, -9.0])
        dm[rname0] = [min(dm[rname0][0], smax), max(dm[rname0][1], smax)]
    ctx.true("decrease", np.all(errs[1:] < errs[:-1]), "convection-order/%s/error-not-decreasing" % rname0, {"errors": errs}, cls="order:" + rname0)
    d = ctx.info.setdefault("observed_slopes", {})
    d.setdefault(rname0, [9.0, -9.0])
    d[rname0] = [min(d[rname0][0], slope), max(d[rname0][1], slope)]
    ctx.nontrivial("conv", rname0, a, L, modes, iname)


def _riemann_data(rng, gam, strong=False):
    e, m, rmax = (2.0, 2.5, 1e4) if strong else (0.5, 0.9, 10)       # strong: ratios up to 1e4, supersonic streams of either sign
    for _ in range(100):
        rl, rr = 10 ** rng.uniform(-e, e, 2); pl, pr = 10 ** rng.uniform(-e, e, 2)
        cl, cr = np.sqrt(gam * pl / rl), np.sqrt(gam * pr / rr)
        ul, ur = rng.uniform(-m, m) * cl, rng.uniform(-m, m) * cr
        if rng.random() < 0.3:
            ul = ur = 0.0
        if (ur - ul) < 0.5 * 2 / (gam - 1) * (cl + cr) and max(rl / rr, rr / rl, pl / pr, pr / pl) <= rmax and max(abs(np.log(pl / pr)), abs(np.log(rl / rr)), abs(ul - ur) / cl) > 0.3:
            return (float(rl), float(ul), float(pl)), (float(rr), float(ur), float(pr))
    raise core.Skip("no data")


def _fans(WL, WR, gam):
    """(head, tail) speeds of the rarefaction fans of the exact solution (left fan, right fan; None where the wave is a shock)"""
    _, _, _, (ps, us) = refs.exact_riemann(WL, WR, gam, np.array([0.0]))
    out = []
    for (r, u, p), sgn in ((WL, -1.0), (WR, 1.0)):
        c = np.sqrt(gam * p / r)
        if ps < p * (1 - 1e-9):
            cs = c * (ps / p) ** ((gam - 1) / (2 * gam))
            out.append(tuple(sorted((u + sgn * c, us + sgn * cs))))
        else:
            out.append(None)
    return out


def _transonic_data(rng, gam):
    """expansion through the sonic point: u - c (or u + c for the mirror image) changes sign INSIDE the fan (Toro's test 1 family)"""
    for _ in range(200):
        M = float(rng.uniform(0.5, 0.95)); cL = np.sqrt(gam)
        WL = (1.0, M * cL, 1.0)
        WR = (float(rng.uniform(0.08, 0.3)), float(rng.uniform(-0.2, 0.2)), float(rng.uniform(0.04, 0.2)))
        fan = _fans(WL, WR, gam)[0]
        if fan is not None and fan[0] < -0.1 and fan[1] > 0.1:
            return WL, WR
    raise core.Skip("no transonic data")


def _riemann_sequence(WL, WR, gam, flux, rname, iname, levels=(50, 100, 200, 400), cfl=0.4, jumps=None):
    sl, sr = refs.riemann_speeds(WL, WR, gam)
    smax = max(abs(sl), abs(sr), 1e-12)
    Lh = 1.0
    T = 0.35 * Lh / smax        # no wave reaches x = +-0.5
    errs = []
    fans = [f for f in _fans(WL, WR, gam) if f is not None] if jumps is not None else []
    for n in levels:
        mesh = fmesh.unimesh(ncell=n, length=2 * Lh, x0=-Lh)
        model = euler.euler1d(gamma=gam)
        num, _ = gen.recon(rname)
        xc = mesh.centers()
        prim = [np.where(xc < 0, WL[i], WR[i]) for i in range(3)]
        disc = md.fvm(model, mesh, num, numflux=flux, bcL={"type": "dirichlet", "prim": list(WL)}, bcR={"type": "dirichlet", "prim": list(WR)})
        f0 = gen.fdata_prim(model, mesh, prim)
        fe = gen.integ(iname)(mesh, disc).solve(f0, cfl if rname == "extrapol1" else 0.5 * cfl, [T], stop={"maxit": 100000})[-1]
        ex = refs.exact_riemann(WL, WR, gam, xc / fe.time)
        got = [fe.phydata("density"), fe.phydata("velocity"), fe.phydata("pressure")]
        cm = max(np.sqrt(gam * WL[2] / WL[0]), np.sqrt(gam * WR[2] / WR[0]))
        norm = [max(abs(WL[0] - WR[0]), 0.05 * max(WL[0], WR[0])), max(abs(WL[1] - WR[1]), 0.05 * cm), max(abs(WL[2] - WR[2]), 0.05 * max(WL[2], WR[2]))]
        e = sum(np.sum(mesh.vol() * np.abs(g - x)) / nrm for g, x, nrm in zip(got, ex[:3], norm)) / (2 * Lh)
        errs.append(float(e))
        if jumps is not None:
            # largest density jump between neighbouring cells strictly INSIDE a rarefaction fan of the exact solution, in units of the
            # density variation across that fan: the exact profile is smooth there, so it must shrink like dx (an expansion shock does not)
            # ... measured at the SONIC POINT of a transonic fan (x = 0, where an entropy-violating expansion shock would stand still),
            # over the four cell pairs around it, in units of the density variation across the whole fan
            xi = xc / fe.time
            worst = 0.0
            for head, tail in fans:
                w = tail - head
                inside = (xi > head) & (xi < tail)
                if head + 0.15 * w < 0.0 < tail - 0.15 * w and np.count_nonzero(inside) >= 4:
                    rng_ = abs(float(ex[0][inside][-1] - ex[0][inside][0])) + 1e-300
                    k0 = int(np.searchsorted(xc, 0.0))
                    k = np.arange(max(k0 - 3, 0), min(k0 + 2, n - 1))
                    worst = max(worst, float(np.max(np.abs(np.diff(got[0])[k]))) / rng_)
            jumps.append(worst)
    return np.array(errs), T


@group(quick=16, thorough=480)
def euler_riemann(ctx, rng, idx):
    """L1 error against the independent exact Riemann solver decreases at every refinement (problem and mirror image)"""
    flux = ["hlle", "hllc"][idx % 2]
    rname = ["extrapol1", "muscl_minmod", "muscl_vanalbada", "muscl_vanleer", "muscl_superbee"][(idx // 2) % 5] if (idx // 2) % 2 else "extrapol1"
    iname = ["explicit", "rk2_heun", "rk3ssp"][(idx // 4) % 3]
    if rname != "extrapol1" and iname == "explicit":
        iname = "rk2_heun"          # forward Euler with a second-order reconstruction is not a convergent TVD combination at this CFL
    gam = float(rng.choice([1.4, 5 / 3, 1.2]))
    transonic = bool(rng.random() < 0.35)
    WL, WR = _transonic_data(rng, gam) if transonic else _riemann_data(rng, gam)
    if idx % 3 == 2 or (transonic and rng.random() < 0.5):                # mirror image
        WL, WR = (WR[0], -WR[1], WR[2]), (WL[0], -WL[1], WL[2])
    levels = (50, 100, 200, 400)
    jumps = []
    errs, T = _riemann_sequence(WL, WR, gam, flux, rname, iname, levels, jumps=jumps)
    ratios = errs[1:] / errs[:-1]
    ctx.describe(flux=flux, recon=rname, integrator=iname, gamma=gam, WL=WL, WR=WR, T=T, levels=levels, errors=errs, ratios=ratios, transonic_rarefaction=transonic, largest_jump_inside_fans=jumps)
    if jumps and jumps[0] > 0:
        d = ctx.info.setdefault("fan_jump_finest_over_coarsest", [9.0, 0.0])
        d[0] = min(d[0], jumps[-1] / jumps[0]); d[1] = max(d[1], jumps[-1] / jumps[0])
        ctx.info["fan_jump_finest_max"] = max(ctx.info.get("fan_jump_finest_max", 0.0), jumps[-1])
    cls = "riemann:" + flux
    ctx.true("finite", np.all(np.isfinite(errs)), "riemann/%s/not-finite" % flux, {"errors": errs}, cls=cls)
    nz = [j for j in jumps if 0 < j < 1e6]
    if len(nz) >= 3:
        # the exact profile is smooth at the sonic point: the jump must shrink with the mesh -- over TWO doublings, because the sonic
        # glitch of a first-order upwind scheme can shrink as slowly as 0.9 per doubling on the finest pair (thorough-tier witness:
        # 0.69, 0.22, 0.20) while a standing expansion shock keeps the same jump on every mesh
        ctx.true("rarefaction-resolved", nz[-1] <= 0.7 * nz[-3], "riemann/%s/%s/jump-inside-a-rarefaction-fan-does-not-shrink-under-refinement" % (flux, "first-order" if rname == "extrapol1" else "muscl"),
                 {"largest neighbour jump inside the fans / density variation of the fan, per level": jumps, "transonic": transonic}, cls=cls)
    mono = bool(np.all(ratios < 1.0))
    if not mono and np.all(np.isfinite(errs)) and np.all(ratios[1:] < 1.0) and ratios[0] < 1.1:
        # only the COARSEST pair (50 -> 100 cells on [-1, 1]) fails, by a few per cent: the starting mesh is the monitor's choice, not part
        # of the property ("decreases under refinement"), and 50 cells can be pre-asymptotic for a compressive limiter on a strong
        # transonic fan (thorough-tier witness: superbee + rk2_heun, ratios 1.02, 0.32, 0.53).  The sequence is continued by one more
        # doubling and judged from the second level on
        e800, _ = _riemann_sequence(WL, WR, gam, flux, rname, iname, (800,))
        mono = bool(np.isfinite(e800[0]) and e800[0] < errs[-1])
        ctx.info["riemann_sequences_judged_from_100_cells_on"] = ctx.info.get("riemann_sequences_judged_from_100_cells_on", 0) + 1
        errs = np.append(errs, e800[0]); ratios = errs[1:] / errs[:-1]
    ctx.true("monotone", mono, "riemann/%s/%s/error-not-decreasing-under-refinement" % (flux, "first-order" if rname == "extrapol1" else "muscl"), {"errors": errs, "ratios": ratios}, cls=cls)
    ctx.true("overall", errs[-1] / errs[0] <= 0.7, "riemann/%s/%s/no-overall-convergence" % (flux, "first-order" if rname == "extrapol1" else "muscl"), {"errors": errs}, cls=cls)
    d = ctx.info.setdefault("riemann_ratio_range", [9.0, -9.0])
    ctx.info["riemann_ratio_range"] = [min(d[0], float(np.min(ratios))), max(d[1], float(np.max(ratios)))]
    ctx.nontrivial("riemann", flux, rname, iname, gam, WL, WR)


@group(quick=40, thorough=1500)
def reference_riemann(ctx, rng, idx):
    """flowdyn.solution.euler_riemann (aerokit wrapper) vs the independent exact solver, pointwise"""
    import flowdyn.solution.euler_riemann as sr
    gam = float(rng.choice([1.4, 5 / 3, 1.2, 1.3]))
    model = euler.euler1d(gamma=gam)
    strong_ = False
    if idx % 5 == 0:
        pb = (sr.Sod_subsonic if idx % 10 == 0 else sr.Sod_supersonic)(model)
        WL, WR = tuple(pb.bcL()), tuple(pb.bcR())
    else:
        strong = strong_ = bool(rng.random() < 0.4)
        WL, WR = _riemann_data(rng, gam, strong=strong)
        try:
            pb = sr.riemann(model, list(WL), list(WR))
        except RuntimeError as e:
            # the packaged solver (aerokit's Newton iteration on p*) gives up loudly on some strong data: no solution to compare
            if not (strong and "converge" in str(e)):
                raise
            ctx.info["packaged_riemann_solver_gave_up_loudly"] = ctx.info.get("packaged_riemann_solver_gave_up_loudly", 0) + 1
            raise core.Skip("packaged riemann solver did not converge (loud)")
    # any mesh around the origin: uniform or not, any size and position of the initial discontinuity inside it
    n = int(rng.integers(20, 400))
    Lm = float(10 ** rng.uniform(-1, 1)); xo = -Lm * float(rng.uniform(0.1, 0.9))
    if rng.random() < 0.5:
        mesh = fmesh.unimesh(ncell=n, length=Lm, x0=xo)
    else:
        mesh = fmesh.refinedmesh(ncell=n, length=Lm, ratio=float(rng.uniform(0.3, 3)))
        mesh = gen.mesh_from_faces(np.asarray(mesh.xf) + xo)
    sl, srr = refs.riemann_speeds(WL, WR, gam)
    t = float(rng.uniform(0.05, 0.9) * min(-xo, Lm + xo) / max(abs(sl), abs(srr)))
    ctx.describe(gamma=gam, WL=WL, WR=WR, t=t, mesh={"ncell": n, "length": Lm, "x0": xo, "class": type(mesh).__name__})
    got = pb.primdata(mesh, t)
    xi = mesh.centers() / t
    rho, u, p, (ps, us) = refs.exact_riemann(WL, WR, gam, xi)
    # exclude cells whose x/t is within 1e-6 (relative) of a discontinuity of the exact solution
    exn = refs.exact_riemann(WL, WR, gam, xi * (1 + 1e-6) + 1e-9)[:3]
    exm = refs.exact_riemann(WL, WR, gam, xi * (1 - 1e-6) - 1e-9)[:3]
    smooth = np.ones(n, bool)
    for a, b in zip(exn, exm):
        smooth &= np.abs(a - b) <= 1e-4 * (np.abs(a) + np.abs(b) + 1e-300)
    for g, e, nm, sc in zip(got, (rho, u, p), ("density", "velocity", "pressure"), (rho, np.abs(u) + np.sqrt(gam * p / rho), p)):
        err = np.max(np.abs(np.asarray(g, float)[smooth] - e[smooth]) / sc[smooth])
        ctx.close("ref:riemann", err, 1e-7 if strong_ else 1e-8, "reference/riemann/%s-differs-from-independent-exact-solver" % nm, {"WL": WL, "WR": WR, "gamma": gam}, cls="ref:riemann")
    # fdata(): conservative field built from it, initial state (t=None) is the piecewise-constant data
    f0 = pb.fdata(mesh)
    ini = [f0.phydata("density"), f0.phydata("velocity"), f0.phydata("pressure")]
    xc = mesh.centers()
    for g, l, r, nm in zip(ini, WL, WR, ("density", "velocity", "pressure")):
        e = np.where(xc < 0, l, r)
        ctx.close("ref:riemann-initial", np.max(np.abs(g - e)) / (abs(l) + abs(r) + 1e-12), 1e-10, "reference/riemann/initial-%s" % nm, None, cls="ref:riemann")
    ctx.nontrivial("refriem", gam, WL, WR, t)


def nozzle_reference(section, gam, NPR):
    """independent quasi-1D solution (area-Mach relation, normal shock); returns Mach, Ptot/ps_exit, Ps/ps_exit, regime"""
    it = int(np.argmin(section))
    Ae, At = section[-1], section[it]
    ar = section / At
    Me_sub = refs.mach_from_area(Ae / At, gam, False)[0]
    Me_sup = refs.mach_from_area(Ae / At, gam, True)[0]
    NPR0 = refs.pi_ps(Me_sub, gam)                                    # choking
    NPRsw = refs.pi_ps(refs.mach_behind_shock(Me_sup, gam), gam) / refs.ptot_ratio_shock(Me_sup, gam)   # shock at the exit
    n = section.size
    if NPR < NPR0:
        Me = np.sqrt(((NPR) ** ((gam - 1) / gam) - 1) * 2 / (gam - 1))
        Astar = Ae / refs.area_mach(Me, gam)
        M = refs.mach_from_area(section / Astar, gam, False)
        Pt = np.full(n, NPR)
        return M, Pt, Pt / refs.pi_ps(M, gam), "subsonic", None, (NPR0, NPRsw)
    M = np.where(np.arange(n) < it, refs.mach_from_area(ar, gam, False), refs.mach_from_area(ar, gam, True))
    M[it] = 1.0
    Pt = np.full(n, NPR)
    if NPR >= NPRsw:
        return M, Pt, Pt / refs.pi_ps(M, gam), "supersonic", None, (NPR0, NPRsw)
    # shock in the divergent: find shock Mach M1 with exit static pressure 1
    def f(M1):
        sig = refs.ptot_ratio_shock(M1, gam)
        Me = refs.mach_from_area(Ae / At * sig, gam, False)[0]
        return refs.pi_ps(Me, gam) / sig - NPR
    lo, hi = 1.0, Me_sup
    for _ in range(200):
        mid = 0.5 * (lo + hi)
        if f(mid) > 0:      # too strong a shock -> NPR needed larger
            hi = mid
        else:
            lo = mid
    M1 = 0.5 * (lo + hi)
    sig = refs.ptot_ratio_shock(M1, gam)
    ish = int(np.argmin(np.abs(M - M1)))
    M[ish:] = refs.mach_from_area(section[ish:] / At * sig, gam, False)
    Pt[ish:] = sig * NPR
    return M, Pt, Pt / refs.pi_ps(M, gam), "shock", ish, (NPR0, NPRsw)


@group(quick=30, thorough=1000)
def reference_nozzle(ctx, rng, idx):
    """flowdyn.solution.euler_nozzle vs independent area-Mach / normal-shock relations: Mach, static and total pressure"""
    import flowdyn.solution.euler_nozzle as sn
    gam = float(rng.choice([1.4, 1.4, 1.35, 1.3]))
    model = euler.nozzle(lambda x: 1 + 0 * x, gamma=gam)
    n = int(rng.choice([50, 100, 150, int(rng.integers(20, 400))]))
    x = (np.arange(n) + 0.5) / n
    xt = float(rng.uniform(0.15, 0.8)); c1, c2 = float(rng.uniform(0.3, 1.5)), float(rng.uniform(0.3, 1.5))
    section = 1.0 + np.where(x < xt, c1 * (x - xt) ** 2 / xt ** 2, c2 * (x - xt) ** 2 / (1 - xt) ** 2)
    if rng.random() < 0.4:
        section = section * float(10 ** rng.uniform(-8, 8))        # the units of the area do not matter (only area ratios enter)
    it = int(np.argmin(section))
    Ae_At = section[-1] / section[it]
    Mref, Ptref, Psref, _, _, (NPR0, NPRsw) = nozzle_reference(section, gam, 1.01)
    regime = ["subsonic", "shock", "supersonic"][idx % 3]
    if regime == "subsonic":
        NPR = float(rng.uniform(1.02, 1 + 0.9 * (NPR0 - 1)))
    elif regime == "shock":
        NPR = float(rng.uniform(NPR0 * 1.05, NPRsw * 0.95)) if NPRsw * 0.95 > NPR0 * 1.05 else float(0.5 * (NPR0 + NPRsw))
    else:
        NPR = float(NPRsw * rng.uniform(1.1, 3.0))
    ctx.describe(gamma=gam, ncell=n, throat_at=xt, c1=c1, c2=c2, exit_to_throat=Ae_At, NPR=NPR, regime=regime, thresholds=[NPR0, NPRsw])
    noz = sn.nozzle(model, section, NPR=NPR)
    # mechanism key: with a model gamma other than 1.4 any mismatch is the known "model gamma ignored" defect (DESIGN 6/D14);
    # with gamma = 1.4 every mismatch is a new violation
    kk = "reference/nozzle/model-gamma-not-1.4" if gam != 1.4 else None
    ctx.close("ref:nozzle-thresholds", max(abs(noz.NPR0 / NPR0 - 1), abs(noz.NPRsw / NPRsw - 1)), 1e-6, kk or "reference/nozzle/regime-thresholds", {"packaged": [noz.NPR0, noz.NPRsw], "independent": [NPR0, NPRsw], "gamma": gam}, cls="ref:nozzle")
    M, Pt, Ps, reg, ish, _ = nozzle_reference(section, gam, NPR)
    keep = np.ones(n, bool)
    if ish is not None:
        keep[max(0, ish - 2): ish + 3] = False          # the packaged solution snaps the shock to the nearest cell
    keep[max(0, it - 1): it + 2] = keep[max(0, it - 1): it + 2] & (reg == "subsonic")       # sonic point: both branches meet
    ctx.close("ref:nozzle-mach", np.max(np.abs(noz.Mach()[keep] - M[keep])), 1e-8, kk or "reference/nozzle/mach-differs-from-area-mach-relation/" + reg, {"NPR": NPR, "gamma": gam, "regime": reg}, cls="ref:nozzle")
    ctx.close("ref:nozzle-ps", np.max(np.abs(noz.Ps()[keep] / Ps[keep] - 1)), 1e-8, kk or "reference/nozzle/static-pressure-differs/" + reg, {"NPR": NPR, "gamma": gam, "regime": reg}, cls="ref:nozzle")
    pt = noz.Ptot()
    ctx.close("ref:nozzle-ptot", np.max(np.abs(np.asarray(pt)[keep] / Pt[keep] - 1)), 1e-8, kk or "reference/nozzle/total-pressure-differs/" + reg, {"NPR": NPR, "gamma": gam, "regime": reg}, cls="ref:nozzle")
    if gam != 1.4 and reg in ("subsonic", "supersonic") and not (min(noz.NPR0, NPR0) <= NPR <= max(noz.NPR0, NPR0) or min(noz.NPRsw, NPRsw) <= NPR <= max(noz.NPRsw, NPRsw)):
        # evidence for the mechanism: the packaged solution equals the independent solution computed with gamma = 1.4
        M14 = nozzle_reference(section, 1.4, NPR)[0]
        if np.max(np.abs(noz.Mach()[keep] - M14[keep])) < 1e-8:
            ctx.info["nozzle_cases_where_packaged_solution_equals_gamma_1.4_solution"] = ctx.info.get("nozzle_cases_where_packaged_solution_equals_gamma_1.4_solution", 0) + 1
    # primdata() consistent with Mach / Ps (ideal gas, r*Ttot = 1)
    rho, u, p = noz.primdata()
    ctx.close("ref:nozzle-prim", max(np.max(np.abs(p / noz.Ps() - 1)), np.max(np.abs(np.abs(u) / np.sqrt(gam * p / rho) - noz.Mach()))), 1e-10, "reference/nozzle/primdata-inconsistent", None, cls="ref:nozzle")
    rtt = p / rho * (1 + 0.5 * (gam - 1) * noz.Mach() ** 2)
    ctx.close("ref:nozzle-rttot", np.max(np.abs(rtt - 1.0)), 1e-10, "reference/nozzle/total-temperature-not-reference", None, cls="ref:nozzle")
    ctx.nontrivial("refnoz", gam, n, xt, c1, c2, NPR)
