"""C10 positivity of first-order Riemann-flux schemes.  Always-on monitor on every outermost step()."""
import numpy as np

import flowdyn.xnum as xnum
import flowdyn.modeldisc as md
import flowdyn.field as ffield

from .. import core, gen, probes, solvelog
from ..core import group

CTX = None
SSP = {"explicit", "forwardeuler", "rk2_heun", "rk3ssp"}
FLUX_OK = {"euler": {"hlle", "hllc", None}, "shallowwater": {"rusanov", "hll", None}}


def _prim(model, data):
    if model.equation == "euler":
        rho = data[0]; u = data[1] / data[0]
        p = (model.gamma - 1.0) * (data[2] - 0.5 * data[1] ** 2 / data[0])
        return rho, u, p, np.sqrt(np.abs(model.gamma * p / rho))
    h = data[0]; u = data[1] / data[0]
    return h, u, h, np.sqrt(np.abs(model.g * h))


def classify(solver, tok):
    disc = solver.modeldisc
    if not isinstance(disc, md.fvm1d):
        return None, "not-1d-fvm"
    model = disc.model
    eqn = model.equation
    if eqn not in FLUX_OK:
        return None, "not-system"
    if type(model).__name__ == "nozzle":
        return None, "nozzle-sources"
    if getattr(model, "source", None):
        return None, "sources"
    if disc.numflux not in FLUX_OK[eqn]:
        return None, "flux-not-riemann"
    flux = disc.numflux or ("hllc" if eqn == "euler" else "rusanov")
    if type(disc.num) is not xnum.extrapol1:
        return None, "not-first-order"
    bt = (disc.bcL["type"], disc.bcR["type"])
    if bt not in (("per", "per"), ("sym", "sym")):
        return None, "bc-not-per-or-wall"
    if type(solver).__name__ not in SSP:
        return None, "integrator-not-ssp"
    if np.ndim(tok["dt"]) != 0:
        return None, "local-dt"
    vol = disc.mesh.vol()
    if float(np.max(vol) / np.min(vol) - 1.0) >= 1e-12:
        return None, "nonuniform"
    data = tok["before"]["data"]
    if not all(np.all(np.isfinite(d)) for d in data):
        return None, "nonfinite-before"
    a, u, p, c = _prim(model, data)
    if not (np.all(a > 0) and np.all(p > 0)):
        return None, "inadmissible-before"
    with probes.quiet():
        dt1 = disc.calc_timestep(ffield.fdata(model, disc.mesh, data), 1.0)
    cfl = float(tok["dt"]) / float(np.min(dt1))
    if not (0 < cfl <= 0.5 * (1 + 1e-12)):
        return None, "cfl-above-half"
    # short of vacuum between every pair of neighbours (periodic wrap / wall mirror included)
    k = 2.0 / (model.gamma - 1.0) if eqn == "euler" else 2.0
    if bt[0] == "per":
        uL, uR, cL, cR = u, np.roll(u, -1), c, np.roll(c, -1)
    else:
        uL = np.concatenate([[-u[0]], u]); uR = np.concatenate([u, [-u[-1]]])
        cL = np.concatenate([[c[0]], c]); cR = np.concatenate([c, [c[-1]]])
    if np.any(uR - uL >= 0.95 * k * (cL + cR)):
        return None, "vacuum-generating"
    return "%s-%s/%s" % (eqn, flux, bt[0]), cfl


EXPECT = {"global": False}     # set by the workload while it runs a solve that asked for ONE global time step


def observer(solver, tok, f_after):
    ctx = CTX
    if not probes.take("step"):
        return
    if EXPECT["global"] and np.ndim(tok["dt"]) != 0:
        ctx.ev("history")
        ctx.fail("history/local-time-steps-used-by-a-solve-that-did-not-ask-for-them", {"dt passed to step": tok["dt"]})
        return
    cls, info = classify(solver, tok)
    if cls is None:
        ctx.skip("step:" + info)
        return
    model = solver.modeldisc.model
    new = [np.asarray(d, float) for d in f_after.data]
    iname = type(solver).__name__
    det = {"cfl": info, "integrator": iname, "before": tok["before"]["data"], "after": new}
    fin = all(np.all(np.isfinite(d)) for d in new)
    ctx.true("finite", fin, cls + "/not-finite", det, cls=cls)
    if not fin:
        return
    a, u, p, c = _prim(model, new)
    ctx.true("density", np.all(a > 0), cls + ("/density-not-positive" if model.equation == "euler" else "/depth-not-positive"), {"min": float(np.min(a)), **det}, cls=cls)
    if model.equation == "euler":
        ctx.true("pressure", np.all(p > 0), cls + "/pressure-not-positive", {"min": float(np.min(p)), **det}, cls=cls)
    d = ctx.info.setdefault("steps_by_integrator", {})
    d[iname] = d.get(iname, 0) + 1


def install(ctx):
    global CTX
    CTX = ctx
    solvelog.install(with_solve=False)
    solvelog.STEP_OBSERVERS.append(observer)
    ctx.on_begin.append(solvelog.reset)


def setup(ctx):
    install(ctx)
    ctx.require(*["%s/%s" % (f, b) for f in ("euler-hlle", "euler-hllc", "shallowwater-rusanov", "shallowwater-hll") for b in ("per", "sym")], "history")


def teardown(ctx):
    for e in probes.errors():
        ctx.harness_error(e)


def _data(rng, n, eqn, model):
    """piecewise-constant / random data with ratios up to 1e3 and Mach (Froude) up to 3, colliding and receding streams"""
    kind = str(rng.choice(["two-state", "three-state", "random", "collide", "recede", "at-rest", "column-at-rest"]))
    e = 1.5 if rng.random() < 0.8 else float(rng.choice([3.0, 4.0]))       # "arbitrarily strong jumps": ratios up to 1e3, sometimes 1e6-1e8
    k = 2.0 / (model.gamma - 1.0) if eqn == "euler" else 2.0
    def cs(a, p):
        return np.sqrt(model.gamma * p / a) if eqn == "euler" else np.sqrt(model.g * a)
    if kind == "column-at-rest":
        # dam break / blast: fluid at rest, a column of one or a few cells 10...1e4 times deeper (denser, at higher pressure) than the rest
        w = int(rng.integers(1, max(2, n // 4 + 1))); i0 = int(rng.integers(0, n))
        col = np.isin(np.arange(n), np.arange(i0, i0 + w) % n)
        a0, p0 = 10 ** rng.uniform(-1, 1), 10 ** rng.uniform(-1, 1)
        a = np.where(col, a0 * 10 ** rng.uniform(1, 4), a0); p = np.where(col, p0 * 10 ** rng.uniform(1, 4), p0)
        m = np.zeros(n)
    elif kind == "random":
        a = 10 ** rng.uniform(-e, e, n); p = 10 ** rng.uniform(-e, e, n)
        m = rng.uniform(-3, 3, n) * (rng.random() < 0.5) + rng.uniform(-0.5, 0.5, n)
    else:
        nz = 2 if kind in ("two-state", "collide", "recede", "at-rest") else 3
        cuts = np.sort(rng.choice(np.arange(1, n), size=min(nz - 1, n - 1), replace=False)) if n > 1 else []
        zone = np.searchsorted(cuts, np.arange(n), side="right")
        av = 10 ** rng.uniform(-e, e, nz); pv = 10 ** rng.uniform(-e, e, nz); mv = rng.uniform(-3, 3, nz)
        if kind == "collide":
            mv = np.array([abs(mv[0]), -abs(mv[1])])
        if kind == "recede":
            mv = np.array([-abs(mv[0]), abs(mv[1])]) * 0.8
        a, p, m = av[zone], pv[zone], mv[zone]
        if kind == "at-rest":
            m = 0.0 * m
    if eqn != "euler":
        p = a
    c = cs(a, p)
    u = m * c
    # stay short of vacuum: shrink receding velocity jumps
    for _ in range(50):
        uR, cR = np.roll(u, -1), np.roll(c, -1)
        bad = (uR - u) >= 0.9 * k * (c + cR)
        if not np.any(bad):
            break
        u = u * 0.8
    return ([a, u, p] if eqn == "euler" else [a, u]), kind


@group(quick=800, thorough=30000)
def riemann_runs(ctx, rng, idx):
    iname = ["explicit", "rk2_heun", "rk3ssp", "forwardeuler"][idx % 4]
    eqn, flux = [("euler", "hlle"), ("euler", "hllc"), ("shallowwater", "rusanov"), ("shallowwater", "hll")][(idx // 4) % 4]
    mname = "euler1d" if eqn == "euler" else "shallowwater"
    model, mparams = gen.make_model(mname, rng, gamma=float(rng.choice([1.2, 1.4, 5.0 / 3.0])) if eqn == "euler" else None)
    n = int(rng.integers(3, 61)) if rng.random() < 0.9 else int(rng.integers(1, 3))
    mesh, mdesc = gen.mesh1d(rng, kind="uni", ncell=n)
    bc = str(rng.choice(["per", "sym"]))
    prim, kind = _data(rng, n, eqn, model)
    if eqn == "euler" and rng.random() < 0.2:
        # the same flow in other UNITS (a diffuse gas in CGS: p ~ 1e-18): density and pressure scaled together, Mach numbers unchanged
        un = float(10 ** rng.uniform(-25, 25))
        prim = [prim[0] * un, prim[1], prim[2] * un]
        kind = kind + " x units %.3g" % un
    intdata = bool(rng.random() < 0.1)
    if intdata:
        # integer-typed admissible data (a user writing np.where(x < .5, 10, 1)): gas/water at rest with integer density, pressure, depth
        # jumps; the field keeps the integer type of its first variable
        cut = int(rng.integers(0, n + 1))
        lo, hi = int(rng.integers(1, 4)), int(rng.integers(2, 12))
        a = np.where(np.arange(n) < cut, hi, lo)
        prim = [a, np.zeros(n, dtype=int), np.where(np.arange(n) < cut, int(rng.integers(1, 12)), int(rng.integers(1, 4)))] if eqn == "euler" else [a, np.zeros(n, dtype=int)]
        kind = "integer-typed two-state at rest"
    disc = md.fvm(model, mesh, xnum.extrapol1(), numflux=flux, bcL={"type": bc}, bcR={"type": bc})
    f = gen.fdata_prim(model, mesh, prim)
    cfl = 0.5 if rng.random() < 0.3 else float(rng.uniform(0.05, 0.5))
    nstep = int(rng.integers(1, 51))
    solver = gen.integ(iname)(mesh, disc)
    hist = bool(rng.random() < 0.3)
    ctx.describe(model=mname, params=mparams, flux=flux, mesh=mdesc, bc=bc, integrator=iname, cfl=cfl, nstep=nstep, datakind=kind, prim=prim,
                 integrator_used_before_with_dtlocal_and_another_cfl=hist)
    if hist:      # the SAME integrator object has been used before: local time stepping, another CFL number, smooth data
        smooth_prim, _ = gen.prim_for(mname, model, rng, n, "smooth", mach_max=0.5, ratio=2.0)
        pre = solver.solve(gen.fdata_prim(model, mesh, smooth_prim), 0.3, stop={"maxit": 2}, directives={"dtlocal": True})
        if rng.random() < 0.5:
            solver.restart(pre[-1], 0.2, stop={"maxit": 1})
        ctx.ev("history")
    EXPECT["global"] = True
    try:
        solver.solve(f, cfl, stop={"maxit": nstep})
    except TypeError as e:
        if not (intdata and gen.refused_integer_field(e)):
            raise
        ctx.skip("case:integer-typed-field-refused-by-numpy-casting-rule")
        ctx.info["integer_typed_fields_refused_loudly"] = ctx.info.get("integer_typed_fields_refused_loudly", 0) + 1
    finally:
        EXPECT["global"] = False
    ctx.nontrivial("pos", mname, flux, bc, iname, cfl, nstep, prim)
