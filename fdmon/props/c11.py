"""C11 reconstructions: constants and linear profiles reproduced at the faces; unlimited schemes = circulant kappa stencil.
Observation points: the face states (pL, pR) the real rhs leaves behind, and rhs on unit impulses."""
import itertools

import numpy as np

import flowdyn.mesh as fmesh
import flowdyn.mesh2d as fmesh2d
import flowdyn.modeldisc as md
import flowdyn.xnum as xnum
import flowdyn.field as ffield
import flowdyn.modelphy.convection as conv
import flowdyn.modelphy.euler as euler

from .. import core, gen, probes
from ..core import group
from . import c01

KAPPA_OF = {"extrapol2": -1.0, "fromm": 0.0, "quick": 0.5, "extrapol3": 1.0 / 3.0, "centered": 1.0}
KAPPAS = [("extrapol2", -1.0), ("fromm", 0.0), ("quick", 0.5), ("extrapol3", 1.0 / 3.0), ("centered", 1.0), ("extrapolk", 0.37), ("extrapolk", -0.6)]


def setup(ctx):
    ctx.require("const1d", "const2d", "linear1d", "extrapol1-adjacent", "kappa1d", "kappa2d", "first2d", "reuse")


def _lim_tol(rname, slope):
    return 1e-20 / slope ** 2 if ("vanalbada" in rname or "vanleer" in rname) and slope != 0 else 0.0


@group(quick=900, thorough=30000)
def constants1d(ctx, rng, idx):
    """constant data: every reconstructed face state equals the cell value exactly (any model, mesh, scheme, BC)"""
    s = gen.scenario1d(rng, nmin=1 if rng.random() < 0.1 else 2, nmax=20, lscale=0.15)
    n = s.mesh.ncell
    vals = [float(rng.choice([0.0, 1.0, -2.5, 10 ** rng.uniform(-6, 6)])) if s.mname in ("convection", "burgers") else float(10 ** rng.uniform(-6, 6)) for _ in range(s.model.neq)]
    if s.mname == "burgers" and vals[0] == 0:
        vals[0] = 0.5
    prim = [np.full(n, v) for v in vals]
    f = gen.fdata_prim(s.model, s.mesh, prim)
    ctx.describe(values=vals, **{k: v for k, v in s.desc().items() if k != "prim"})
    s.disc.rhs(f)
    for i in range(s.model.neq):
        c = s.disc.pdata[i][0]
        ok = np.all(s.disc.pL[i][1:] == c) and np.all(s.disc.pR[i][:-1] == c)
        if s.bckind == "per":
            ok = ok and s.disc.pL[i][0] == c and s.disc.pR[i][-1] == c
        ctx.true("const1d", ok, "constants/face-state-differs/" + s.rname.split("(")[0], {"eq": i, "value": c, "pL": s.disc.pL[i], "pR": s.disc.pR[i]}, cls="const1d")
    ctx.nontrivial(s.desc(), vals)


@group(quick=300, thorough=10000)
def constants2d(ctx, rng, idx):
    m, model, disc, f, desc = c01.scenario2d(rng, allper=rng.random() < 0.5)
    rho, p = float(10 ** rng.uniform(-3, 3)), float(10 ** rng.uniform(-3, 3))
    V = rng.uniform(-2, 2, 2) * np.sqrt(1.4 * p / rho)
    n = m.ncell
    prim = [np.full(n, rho), np.vstack([np.full(n, V[0]), np.full(n, V[1])]), np.full(n, p)]
    f = ffield.fdata(model, m, model.prim2cons(prim))
    desc = dict(desc, prim=[rho, V, p])
    ctx.describe(**desc)
    disc.rhs(f)
    nx, ny = m.nx, m.ny
    nxf = ny * (nx + 1)
    # faces with a cell on the given side (geometric, independent of mesh.index_of_bc)
    hasL = np.ones(m.nbfaces(), bool); hasR = np.ones(m.nbfaces(), bool)
    hasL[np.arange(ny) * (nx + 1)] = False; hasR[np.arange(ny) * (nx + 1) + nx] = False
    hasL[nxf + np.arange(nx)] = False; hasR[nxf + ny * nx + np.arange(nx)] = False
    for i, c in enumerate([disc.pdata[0][0], disc.pdata[1][:, :1], disc.pdata[2][0]]):
        L, R = disc.pL[i], disc.pR[i]
        ok = np.all(L[..., hasL] == c) and np.all(R[..., hasR] == c)
        ctx.true("const2d", ok, "constants2d/face-state-differs", {"eq": i}, cls="const2d")
    ctx.nontrivial(desc)


@group(quick=900, thorough=30000)
def linear1d(ctx, rng, idx):
    """a*x+b on arbitrary monotone faces, non-periodic ends: exact at interior faces for every k-scheme and limiter"""
    rname0 = gen.ALL_RECONS[idx % len(gen.ALL_RECONS)]
    num, rname = gen.recon(rname0, rng)
    mesh, mdesc = gen.mesh1d(rng, nmin=3, nmax=24, big=0.03, lscale=0.2)
    a = float(rng.choice([1.0, -1.0, 10 ** rng.uniform(-3, 3) * rng.choice([-1, 1])]))
    b = float(rng.uniform(-2, 2) * abs(a) * mesh.length)
    model = conv.model(float(rng.choice([1.0, -1.0])))
    # cell values of the profile = its cell AVERAGES over the cells the faces define, i.e. its values at the face midpoints computed here
    # from mesh.xf (not read from the library's own idea of a cell centre, which would keep a misplaced centre self-consistent)
    xm_ = 0.5 * (np.asarray(mesh.xf, float)[1:] + np.asarray(mesh.xf, float)[:-1])
    q = a * xm_ + b
    bc = {"type": "dirichlet", "prim": [0.0]}
    disc = md.fvm(model, mesh, num, bcL=bc, bcR=bc)
    ctx.describe(recon=rname, mesh=mdesc, a=a, b=b)
    disc.rhs(ffield.fdata(model, mesh, [q]))
    n = mesh.ncell
    exact = a * mesh.xf + b
    scale = abs(a) * mesh.length + abs(b) + 1e-300
    pL, pR = disc.pL[0], disc.pR[0]
    if rname == "extrapol1":
        ctx.true("extrapol1-adjacent", np.array_equal(pL[1:], q) and np.array_equal(pR[:-1], q), "extrapol1/not-adjacent-cell-value", None, cls="extrapol1-adjacent")
    else:
        tol = 1e-13 + _lim_tol(rname, a)
        if n >= 3:
            eL = np.max(np.abs(pL[2:n] - exact[2:n])) / scale if n > 2 else 0.0
            eR = np.max(np.abs(pR[1:n - 1] - exact[1:n - 1])) / scale if n > 2 else 0.0
            ctx.close("linear1d:L", eL, tol, "linear/left-state-not-exact/" + rname.split("(")[0], {"a": a, "pL": pL, "exact": exact}, cls="linear1d")
            ctx.close("linear1d:R", eR, tol, "linear/right-state-not-exact/" + rname.split("(")[0], {"a": a, "pR": pR, "exact": exact}, cls="linear1d")
    ctx.nontrivial(rname, mdesc, a, b)


def _kappa_matrix(n, k, a, dx):
    """circulant operator of the kappa scheme for q_t + a q_x = 0 with upwind flux (textbook formula, indices mod n)"""
    A = np.zeros((n, n))
    def left(i):      # (column, weight) pairs of the left state at face i+1/2 (from cell i); columns may coincide for n <= 2
        return [(i % n, 1.0 + (1 - k) / 4 - (1 + k) / 4), ((i - 1) % n, -(1 - k) / 4), ((i + 1) % n, (1 + k) / 4)]
    def right(i):     # right state at face i+1/2 (from cell i+1)
        return [((i + 1) % n, 1.0 + (1 - k) / 4 - (1 + k) / 4), ((i + 2) % n, -(1 - k) / 4), (i % n, (1 + k) / 4)]
    st = left if a > 0 else right
    for i in range(n):
        for col, w in st(i):       # + face i+1/2
            A[i, col] -= a * w / dx
        for col, w in st(i - 1):   # - face i-1/2
            A[i, col] += a * w / dx
    return A


def _n_kappa(ctx):
    return 12 * len(KAPPAS) * 2


@group(quick=_n_kappa, thorough=_n_kappa, exhaustive=True)
def kappa1d(ctx, rng, idx):
    """operator assembled from the real rhs on unit impulses == kappa circulant; exhaustive n=1..12 x schemes x sign"""
    n = idx % 12 + 1
    rname0, k = KAPPAS[(idx // 12) % len(KAPPAS)]
    sign = 1.0 if (idx // (12 * len(KAPPAS))) == 0 else -1.0
    a = sign * float(np.round(rng.uniform(0.3, 3.0), 3))
    if rng.random() < 0.3:
        a = sign * float(10 ** rng.uniform(-9, 6))        # any magnitude of the speed (the comparison below is relative to |a|/dx)
    L = float(np.round(rng.uniform(0.5, 4.0), 3))
    num, rname = gen.recon(rname0, rng, k=k)
    x0 = float(rng.choice([0.0, np.round(rng.uniform(-2, 2), 3)]))
    mk = int(rng.integers(4))      # the uniform periodic mesh comes from any class that can build one
    mesh = [lambda: fmesh.unimesh(ncell=n, length=L, x0=x0), lambda: fmesh.mesh1d(ncell=n, length=L, x0=x0),
            lambda: fmesh.morphedmesh(ncell=n, length=L, x0=x0), lambda: fmesh.refinedmesh(ncell=n, length=L, ratio=1.0)][mk]()
    model = conv.model(a)
    disc = md.fvm(model, mesh, num)
    A = np.zeros((n, n))
    # unit impulses as a user may type them: np.eye(n)[j] (floats) or np.eye(n, dtype=int)[j] / integer literals (15 % of the cases):
    # the operator is the same stencil whatever the element type of the data it is handed
    int_typed = bool(rng.random() < 0.15)
    for j in range(n):
        e = np.zeros(n, dtype=np.int64 if int_typed else float); e[j] = 1
        A[:, j] = disc.rhs(ffield.fdata(model, mesh, [e]))[0]
    ref = _kappa_matrix(n, k, a, L / n)
    ctx.describe(recon=rname, kappa=k, n=n, a=a, length=L, operator_row0=A[0], integer_typed_impulses=int_typed)
    ctx.close("kappa1d", np.max(np.abs(A - ref)) * (L / n) / abs(a), 1e-12, "kappa1d/operator-not-kappa-stencil/" + rname.split("(")[0], {"n": n, "kappa": k, "a": a, "got row 0": A[0], "expected row 0": ref[0]}, cls="kappa1d")
    # same statement for random data (the operator is linear)
    # "for all data": O(1) random values, a small perturbation of a constant (1e-3...1e-10: values on both sides of the seam are nearly
    # but not exactly equal), tiny and huge amplitudes, first and last cell equal up to a few ulps
    q0 = rng.uniform(-1, 1, n)
    eps = float(10 ** rng.uniform(-10, -3))
    datas = {"random": q0, "constant-plus-small-perturbation": float(rng.uniform(0.5, 2)) * float(rng.choice([-1, 1])) + eps * q0,
             "tiny-amplitude": q0 * float(10 ** rng.uniform(-30, -8)), "huge-amplitude": q0 * float(10 ** rng.uniform(8, 30))}
    qq = q0.copy(); qq[-1] = np.nextafter(qq[0], 2.0); datas["seam-values-one-ulp-apart"] = qq
    for dname, q in datas.items():
        r = disc.rhs(ffield.fdata(model, mesh, [q]))[0]
        # the residual of the perturbation is compared with ITS size: subtract the (exactly representable) image of the constant part
        base = float(np.median(q)) if dname == "constant-plus-small-perturbation" else 0.0
        sc = np.max(np.abs(q - base)) + 1e-14 * np.max(np.abs(q)) + 1e-300
        ctx.close("kappa1d-data", np.max(np.abs(r - ref @ q)) * (L / n) / abs(a) / sc, 1e-12 if dname != "constant-plus-small-perturbation" else 1e-12 + 1e-15 * abs(base) / sc * n, "kappa1d/random-data-not-kappa-stencil/" + rname.split("(")[0],
                  {"n": n, "kappa": k, "data": dname, "q": q}, cls="kappa1d")
    ctx.nontrivial("kappa1d", n, rname, a)


K2D = [None, -1.0, 0.0, 1.0 / 3.0, 0.5, 1.0, 0.37]


def _n_kappa2d(ctx):
    return 5 * 5 * len(K2D)


@group(quick=_n_kappa2d, thorough=_n_kappa2d, exhaustive=True)
def kappa2d(ctx, rng, idx):
    """2D face states left behind by the real fvm2d.rhs on a periodic grid == kappa formula along x and along y
    (unit impulses and random data); exhaustive nx, ny = 1..5 x schemes"""
    nx, ny = idx % 5 + 1, (idx // 5) % 5 + 1
    k = K2D[(idx // 25) % len(K2D)]
    m = fmesh2d.mesh2d(nx, ny, float(np.round(rng.uniform(0.5, 3), 3)), float(np.round(rng.uniform(0.5, 3), 3)))
    model = euler.euler2d()
    num = xnum.extrapol2d1() if k is None else xnum.extrapol2dk(k)
    bcl = {t: {"type": "per"} for t in m.list_of_bctags()}
    disc = md.fvm2d(model, m, num, bclist=bcl, numflux="centered")
    n = nx * ny
    cls = "first2d" if k is None else "kappa2d"
    kk = -1.0 if k is None else k
    km, kp = (1 - kk) / 4.0, (1 + kk) / 4.0
    if k is None:
        km = kp = 0.0
    ctx.describe(nx=nx, ny=ny, kappa=k, lx=m.lx, ly=m.ly)
    fields = []
    for j in range(min(n, 6)):       # unit impulses in density
        rho = np.ones(n); rho[int(rng.integers(n))] += 1.0
        fields.append([rho, np.zeros((2, n)), np.ones(n)])
    fields.append([rng.uniform(0.5, 2, n), rng.uniform(-1, 1, (2, n)), rng.uniform(0.5, 2, n)])
    nxf = ny * (nx + 1)
    worst = 0.0
    for prim in fields:
        disc.rhs(ffield.fdata(model, m, model.prim2cons(prim)))
        for comp_get in (lambda P: P[0], lambda P: P[1][0], lambda P: P[1][1], lambda P: P[2]):
            q = comp_get(disc.pdata).reshape(ny, nx)
            L, R = comp_get(disc.pL), comp_get(disc.pR)
            Lx, Rx = L[:nxf].reshape(ny, nx + 1), R[:nxf].reshape(ny, nx + 1)
            Ly, Ry = L[nxf:].reshape(ny + 1, nx), R[nxf:].reshape(ny + 1, nx)
            # x direction: face i (between cells i-1 and i), periodic
            qm, qp = np.roll(q, 1, axis=1), np.roll(q, -1, axis=1)
            left_of_cell = q + km * (q - qm) + kp * (qp - q)      # left state at the face right of the cell
            right_of_cell = q - km * (qp - q) - kp * (q - qm)     # right state at the face left of the cell
            eL = Lx[:, 1:] - left_of_cell; eR = Rx[:, :-1] - right_of_cell
            # periodic closure: left state at face 0 = left state at face nx ; right state at face nx = right state at face 0
            eLp = Lx[:, 0] - left_of_cell[:, -1]; eRp = Rx[:, -1] - right_of_cell[:, 0]
            qm, qp = np.roll(q, 1, axis=0), np.roll(q, -1, axis=0)
            up_of_cell = q + km * (q - qm) + kp * (qp - q)
            down_of_cell = q - km * (qp - q) - kp * (q - qm)
            fL = Ly[1:, :] - up_of_cell; fR = Ry[:-1, :] - down_of_cell
            fLp = Ly[0, :] - up_of_cell[-1, :]; fRp = Ry[-1, :] - down_of_cell[0, :]
            sc = np.max(np.abs(q)) + 1e-300
            worst = max(worst, max(np.max(np.abs(x)) for x in (eL, eR, eLp, eRp, fL, fR, fLp, fRp)) / sc)
    ctx.close(cls, worst, 1e-13, "kappa2d/face-states-not-kappa-formula" if k is not None else "first2d/face-states-not-adjacent-cell", {"nx": nx, "ny": ny, "kappa": k}, cls=cls)
    ctx.nontrivial("kappa2d", nx, ny, k)


@group(quick=330, thorough=10000)
def reuse(ctx, rng, idx):
    """ONE reconstruction object used on a first mesh and then on a second mesh with the same number of cells but another
    spacing (and on a periodic mesh of another length): nothing may be remembered from the first use"""
    rname0 = gen.ALL_RECONS[idx % len(gen.ALL_RECONS)]
    k = float(rng.choice([-1.0, 0.0, 0.5, 1.0 / 3.0, 1.0, 0.37])) if rname0 == "extrapolk" else None
    num, rname = gen.recon(rname0, rng, k=k)
    n = int(rng.integers(3, 20))
    meshA, dA = gen.mesh1d(rng, ncell=n)
    meshB, dB = gen.mesh1d(rng, ncell=n)
    a = float(rng.choice([1.0, -1.0, 10 ** rng.uniform(-2, 2) * rng.choice([-1, 1])]))
    b = float(rng.uniform(-2, 2) * abs(a))
    model = conv.model(float(rng.choice([1.0, -1.5])))
    bc = {"type": "dirichlet", "prim": [0.0]}
    ctx.describe(recon=rname, meshA=dA, meshB=dB, a=a, b=b)
    md.fvm(model, meshA, num, bcL=bc, bcR=bc).rhs(ffield.fdata(model, meshA, [a * meshA.xc + b + rng.uniform(-1, 1, n)]))      # first use (any data)
    discB = md.fvm(model, meshB, num, bcL=bc, bcR=bc)
    q = a * 0.5 * (np.asarray(meshB.xf, float)[1:] + np.asarray(meshB.xf, float)[:-1]) + b
    discB.rhs(ffield.fdata(model, meshB, [q]))
    exact = a * meshB.xf + b
    scale = abs(a) * (meshB.xf[-1] - meshB.xf[0]) + abs(b) + 1e-300
    pL, pR = discB.pL[0], discB.pR[0]
    if rname == "extrapol1":
        ctx.true("reuse", np.array_equal(pL[1:], q) and np.array_equal(pR[:-1], q), "reuse/extrapol1/not-adjacent-cell-value-on-second-mesh", None, cls="reuse")
    elif n >= 3:
        tol = 1e-13 + _lim_tol(rname, a)
        err = max(np.max(np.abs(pL[2:n] - exact[2:n])), np.max(np.abs(pR[1:n - 1] - exact[1:n - 1]))) / scale
        ctx.close("reuse:linear", err, tol, "reuse/linear-profile-not-exact-on-second-mesh/" + rname.split("(")[0], {"meshA": dA, "meshB": dB}, cls="reuse")
    # periodic: operator on a second uniform mesh of another length (unlimited schemes)
    kap = KAPPA_OF.get(rname0, k)
    if kap is not None:
        L1, L2 = float(np.round(rng.uniform(0.5, 2), 3)), float(np.round(rng.uniform(2.5, 6), 3))
        m1, m2 = fmesh.unimesh(ncell=n, length=L1), fmesh.unimesh(ncell=n, length=L2)
        aa = model.convcoef
        md.fvm(model, m1, num).rhs(ffield.fdata(model, m1, [rng.uniform(-1, 1, n)]))
        d2 = md.fvm(model, m2, num)
        qq = rng.uniform(-1, 1, n)
        r = d2.rhs(ffield.fdata(model, m2, [qq]))[0]
        ref = _kappa_matrix(n, kap, aa, L2 / n) @ qq
        ctx.close("reuse:kappa", np.max(np.abs(r - ref)) * (L2 / n) / abs(aa), 1e-12, "reuse/kappa-stencil-wrong-on-second-mesh/" + rname.split("(")[0], {"L1": L1, "L2": L2}, cls="reuse")
    ctx.nontrivial("reuse", rname, dA, dB, a)
