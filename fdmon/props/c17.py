"""C17 state conversions round-trip; named variables equal their ideal-gas definitions (1D, nozzle, 2D, shallow water...)."""
import numpy as np

import flowdyn.mesh as fmesh
import flowdyn.mesh2d as fmesh2d
import flowdyn.field as ffield
import flowdyn.modelphy.base as mbase
import flowdyn.modelphy.euler as euler
import flowdyn.modelphy.shallowwater as shw
import flowdyn.modelphy.convection as conv
import flowdyn.modelphy.burgers as burgers

from .. import core, gen, probes
from ..core import group

CTX = None
TOL = 1e-10      # x conditioning (pressure from total energy loses 1 + gamma(gamma-1)M^2/2); measured worst ~1e-14
_seen = {}


def mon_named(args, kwargs, result, tok):
    """counts which names are dispatched through model.nameddata (evidence: every registered name is reached)"""
    model, name = args[0], args[1]
    k = "%s:%s" % (type(model).__name__, name)
    _seen[k] = _seen.get(k, 0) + 1


def setup(ctx):
    global CTX
    CTX = ctx
    probes.hook(mbase.model, "nameddata", after=mon_named)
    ctx.require("roundtrip:euler1d", "roundtrip:nozzle", "roundtrip:euler2d", "roundtrip:shallowwater", "roundtrip:convection", "roundtrip:burgers",
                "vars:euler1d", "vars:nozzle", "vars:euler2d", "vars:shallowwater", "vars:convection", "reuse:nozzle", "reuse:euler1d")


def teardown(ctx):
    ctx.info["nameddata_dispatches"] = dict(_seen)
    for e in probes.errors():
        ctx.harness_error(e)


def definitions(kind, gam, rho, V, p, section=None):
    """textbook definitions from the primitive state; V is u (1D) or (2, n) (2D). returns name -> (value, scale, conditioned)"""
    gm = gam - 1
    two_d = np.ndim(V) == 2
    q2 = V[0] ** 2 + V[1] ** 2 if two_d else V * V
    q = np.sqrt(q2)
    c = np.sqrt(gam * p / rho)
    M = q / c
    f = 1 + 0.5 * gm * M * M
    h = gam / gm * p / rho
    d = {
        "density": (rho, rho, False),
        "pressure": (p, p, True),
        "velocity": (V, q + c, False),
        "velocitymag": (q, q + c, False),
        "kinetic-energy": (0.5 * rho * q2, 0.5 * rho * (q + c) ** 2, False),
        "kinetic_energy": (0.5 * rho * q2, 0.5 * rho * (q + c) ** 2, False),
        "asound": (c, c, True),
        "mach": (M if two_d else V / c, 1 + M, True),
        "entropy": (np.log(p / rho ** gam) / gm, (np.abs(np.log(p)) + gam * np.abs(np.log(rho)) + 1) / gm, True),
        "enthalpy": (h, h, True),
        # total enthalpy and total temperature are SUMS of positive terms of the conservative state, (gamma (rhoE - ec) + ec)/rho: the
        # cancellation in rhoE - ec costs eps rhoE in absolute terms, i.e. a few eps relative to htot at ANY Mach number -- not conditioned
        "htot": (h + 0.5 * q2, h + 0.5 * q2, False),
        "rttot": (gm / gam * (h + 0.5 * q2), gm / gam * (h + 0.5 * q2), False),
        "ptot": (p * f ** (gam / gm), p * f ** (gam / gm) * (1 + gam / gm), True),
    }
    if two_d:
        d["velocity_x"] = (V[0], q + c, False)
        d["velocity_y"] = (V[1], q + c, False)
    else:
        d["massflow"] = (rho * V * (section if section is not None else 1.0), rho * (q + c) * (section if section is not None else 1.0), False)
    return d, 1 + 0.5 * gam * gm * M * M


def _representable(val, scale):
    """cells where the definition is a double with some headroom (no overflow in the reference nor in the library's own intermediate products)"""
    with np.errstate(all="ignore"):
        ok = np.isfinite(scale) & (np.abs(scale) < 1e300)
        v = np.abs(np.asarray(val, float))
        return ok & (np.isfinite(v) & (v < 1e300)).all(axis=0) if v.ndim == 2 else ok & np.isfinite(v) & (v < 1e300)


def _euler_states(rng, n, gam, two_d):
    rho = 10 ** rng.uniform(-6, 6, n); p = 10 ** rng.uniform(-6, 6, n)
    if rng.random() < 0.2:
        un = float(10 ** rng.uniform(-25, 25))          # other units (a diffuse gas in CGS has p ~ 1e-18): density and pressure together
        rho, p = rho * un, p * un
    M = 10 ** rng.uniform(-3, 1, n)
    if rng.random() < 0.25:
        M = 10 ** rng.uniform(-3, 6, n)          # "any Mach number": hypervelocity streams, where pressure is a small difference of large numbers
    M[: n // 8] = 0.0
    c = np.sqrt(gam * p / rho)
    if two_d:
        th = rng.uniform(0, 2 * np.pi, n)
        th[n // 8: n // 4] = rng.choice([0, np.pi / 2, np.pi, -np.pi / 2], n // 4 - n // 8)
        V = M * c * np.vstack([np.cos(th), np.sin(th)])
    else:
        V = M * c * rng.choice([-1.0, 1.0], n)
    return rho, V, p


@group(quick=600, thorough=20000)
def euler_vars(ctx, rng, idx):
    kind = ["euler1d", "nozzle", "euler2d"][idx % 3]
    gam = float(rng.choice([1.4, 5 / 3, 1.2, 2.0, np.round(rng.uniform(1.02, 2.0), 3)]))
    section = None
    if kind == "euler2d":
        nx, ny = int(rng.integers(1, 7)), int(rng.integers(1, 7))
        mesh = fmesh2d.mesh2d(nx, ny, 1.0, 2.0); model = euler.euler2d(gamma=gam)
    else:
        mesh, _ = gen.mesh1d(rng, nmin=1, nmax=40, big=0.05)
        if kind == "nozzle":
            a, b = float(rng.uniform(0.5, 2)), float(rng.uniform(0.1, 0.8))
            sec = lambda x: a * (1 + b * np.sin(1.3 * x) ** 2)
            model = euler.nozzle(sec, gamma=gam); model.initdisc(mesh); section = sec(mesh.centers())
        else:
            model = euler.euler1d(gamma=gam)
    n = mesh.ncell
    gen.maybe_decoy(rng)
    rho, V, p = _euler_states(rng, n, gam, kind == "euler2d")
    intdata = bool(rng.random() < 0.1)
    if intdata:          # a user typing 1 instead of 1.: integer-typed state arrays (the field keeps the type it is given)
        it = np.int64 if rng.random() < 0.7 else np.int32
        rho, p = rng.integers(1, 6, n).astype(it), rng.integers(1, 7, n).astype(it)
        V = rng.integers(-3, 4, (2, n) if kind == "euler2d" else n).astype(it)
    ctx.describe(model=kind, gamma=gam, ncell=n, rho=rho[:4], V=np.asarray(V)[..., :4], p=p[:4], integer_typed=intdata)
    prim = [rho, V, p]
    cons = model.prim2cons([x.copy() for x in prim])
    if intdata:
        rho, V, p = (np.asarray(x, float) for x in (rho, V, p))
    defs, cond = definitions(kind, gam, rho, V, p, section)
    # round trip
    back = model.cons2prim([np.array(x, copy=True) for x in cons])
    q = np.sqrt(V[0] ** 2 + V[1] ** 2) if kind == "euler2d" else np.abs(V)
    c = np.sqrt(gam * p / rho)
    ctx.close("roundtrip", np.max(np.abs(back[0] - rho) / rho), TOL, "roundtrip/%s/density" % kind, None, cls="roundtrip:" + kind)
    ctx.close("roundtrip", np.max(np.abs(np.asarray(back[1]) - V) / (q + c)), TOL, "roundtrip/%s/velocity" % kind, None, cls="roundtrip:" + kind)
    ctx.close("roundtrip", np.max(np.abs(back[2] - p) / p / cond), TOL, "roundtrip/%s/pressure" % kind, None, cls="roundtrip:" + kind)
    # mixed scalar / array arguments (a uniform density or pressure written as one number next to per-cell velocities): plain numpy
    # broadcasting, the result must be that of the same call with full arrays
    for which in ("density", "pressure", "both"):
        form = [float, np.float64, np.array][int(rng.integers(3))]
        r0, p0 = rho[int(rng.integers(n))], p[int(rng.integers(n))]
        mixed = [form(r0) if which in ("density", "both") else rho.copy(), np.array(V, copy=True), form(p0) if which in ("pressure", "both") else p.copy()]
        full = [np.full(n, r0) if which in ("density", "both") else rho.copy(), np.array(V, copy=True), np.full(n, p0) if which in ("pressure", "both") else p.copy()]
        try:
            cm = model.prim2cons(mixed)
        except (AttributeError, TypeError, ValueError) as e:      # refused loudly: not this property's business
            ctx.skip("mixed-scalar-array:refused(%s)" % type(e).__name__)
            continue
        cf = model.prim2cons(full)
        errm = max(float(np.max(np.abs(np.broadcast_to(np.asarray(a_, float), np.shape(b_)) - b_) / (np.abs(b_) + np.max(np.abs(b_)) * 1e-3 + 1e-300))) for a_, b_ in zip(cm, cf))
        ctx.close("mixed-scalar-array", errm, 1e-13, "roundtrip/%s/prim2cons-with-scalar-%s-differs-from-full-arrays" % (kind, which), {"scalar given as": form.__name__}, cls="roundtrip:" + kind)
        # and back: conservative data with a scalar density (uniform density field)
        if which == "density":
            qm = [form(r0), np.array(cf[1], copy=True), np.array(cf[2], copy=True)]
            try:
                bm = model.cons2prim(qm)
            except (AttributeError, TypeError, ValueError) as e:
                ctx.skip("mixed-scalar-array:refused(%s)" % type(e).__name__)
                continue
            bf = model.cons2prim([np.array(x, copy=True) for x in cf])
            errb = max(float(np.max(np.abs(np.broadcast_to(np.asarray(a_, float), np.shape(b_)) - b_) / (np.abs(b_) + np.max(np.abs(b_)) * 1e-3 + 1e-300))) for a_, b_ in zip(bm, bf))
            ctx.close("mixed-scalar-array", errb, 1e-12 * float(np.max(cond)), "roundtrip/%s/cons2prim-with-scalar-density-differs-from-full-arrays" % kind, {"scalar given as": form.__name__}, cls="roundtrip:" + kind)
    # elementwise: the conversion of one cell must not depend on which other cells are in the same call (sub-arrays by position, at
    # random and by speed, compared bit for bit with the full-array result)
    spd = np.sqrt(np.sum(np.atleast_2d(np.asarray(V, float)) ** 2, axis=0))
    for sname, msk in {"first-one": np.arange(n) < 1, "random-half": rng.random(n) < 0.5, "slowest-quarter": spd <= np.quantile(spd, 0.25), "fastest-quarter": spd >= np.quantile(spd, 0.75)}.items():
        if not np.any(msk):
            continue
        cs = model.prim2cons([np.array(x, copy=True)[..., msk] for x in prim])
        bs = model.cons2prim([np.array(x, copy=True)[..., msk] for x in cons])
        same = all(np.array_equal(np.asarray(a_, float), np.asarray(b_, float)[..., msk], equal_nan=True) for a_, b_ in zip(cs, cons)) and \
            all(np.array_equal(np.asarray(a_, float), np.asarray(b_, float)[..., msk], equal_nan=True) for a_, b_ in zip(bs, back))
        ctx.true("elementwise", bool(same), "roundtrip/%s/conversion-of-a-cell-depends-on-the-other-cells-of-the-call" % kind, None if same else {"subset": sname}, cls="roundtrip:" + kind)
    f = ffield.fdata(model, mesh, cons)
    names = list(model.list_var())
    for name in names:
        if name not in defs:
            ctx.true("vars-known", False, "vars/%s/unknown-variable-name/%s" % (kind, name), None, cls="vars:" + kind)
            continue
        val, scale, conditioned = defs[name]
        got = np.asarray(f.phydata(name), float)
        want_shape = (2, n) if name == "velocity" and kind == "euler2d" else (n,)
        if not ctx.true("shape", got.shape == want_shape, "vars/%s/%s/shape" % (kind, name), {"shape": got.shape, "expected": want_shape}, cls="vars:" + kind):
            continue
        if name == "mach" and kind != "euler2d":
            got, val = np.abs(got), np.abs(val)         # 1D mach is signed in flowdyn (DESIGN 3/C17): magnitude only
        if name == "mach" and kind == "euler2d":
            ctx.true("mach>=0", np.all(got >= 0), "vars/euler2d/mach/negative", None, cls="vars:" + kind)
        with np.errstate(all="ignore"):
            err = np.abs(got - val) / scale / (cond if conditioned else 1.0)
        # a definition whose value is not a double (total pressure at Mach 1e6 with gamma -> 1 exceeds 1e308) has nothing to be compared with
        err = np.where(_representable(val, scale), err, 0.0)
        ctx.close("vars:" + name, np.max(err), TOL, "vars/%s/%s/not-its-definition" % (kind, name), {"worst index": int(np.argmax(np.max(np.atleast_2d(err), axis=0)))}, cls="vars:" + kind)
    # history on the SAME field object: its post-processing helpers (average, stats) and a caller who works in place on the arrays it
    # was handed must leave the field -- hence every named variable evaluated afterwards -- what it was
    data0 = [np.array(x, copy=True) for x in f.data]
    order_ = [names[i] for i in rng.permutation(len(names))]
    for name in order_[:6]:
        if name not in defs:
            continue
        try:
            av = f.average(name); st = f.stats(name)
        except (ValueError, TypeError):
            continue          # vector-valued variable: no scalar average (loud)
    for name in order_[:6]:
        arr = f.phydata(name)
        if isinstance(arr, np.ndarray) and arr.flags.writeable and arr.dtype.kind == "f":
            arr -= 1.0; arr *= 0.5          # the caller's own arithmetic on the array it got
    same = all(np.array_equal(np.asarray(a_), np.asarray(b_), equal_nan=True) for a_, b_ in zip(f.data, data0))
    ctx.true("field-untouched", same, "vars/%s/field-data-changed-by-post-processing-or-by-work-on-returned-arrays" % kind, {"variables used": order_[:6]}, cls="vars:" + kind)
    if not same:
        bad = []
        for name in names:
            if name in defs and np.shape(defs[name][0]) == np.shape(f.phydata(name)):
                val, scale, conditioned = defs[name]
                g_ = np.abs(np.asarray(f.phydata(name), float)) if name == "mach" else np.asarray(f.phydata(name), float)
                v_ = np.abs(val) if name == "mach" else val
                with np.errstate(all="ignore"):
                    if not np.all((np.abs(g_ - v_) / scale / (cond if conditioned else 1.0) <= TOL) | ~_representable(val, scale)):
                        bad.append(name)
        ctx.true("vars-after-history", not bad, "vars/%s/named-variables-wrong-after-post-processing" % kind, {"wrong": bad}, cls="vars:" + kind)
    # a UNIFORM state written the way a user writes it -- one number per variable, [u, v] for the 2D velocity -- expanded by the field
    # constructor (as fdata_fromprim does), on this very mesh (1-, 2-, ... cell grids included): same definitions
    r0, p0 = float(rho[0]), float(p[0])
    V0 = [float(np.asarray(V)[0][0]), float(np.asarray(V)[1][0])] if kind == "euler2d" else float(np.asarray(V)[0])
    try:
        fu = ffield.fdata(model, mesh, [r0, V0 if rng.random() < 0.7 or kind != "euler2d" else np.array(V0), p0])
        fcu = ffield.fdata(model, mesh, model.prim2cons(fu.data))
    except (ValueError, TypeError, IndexError, AttributeError) as e:
        ctx.true("uniform-field", False, "vars/%s/uniform-state-field-cannot-be-built" % kind, {"error": "%s: %s" % (type(e).__name__, e), "ncell": n}, cls="vars:" + kind)
        fcu = None
    if fcu is not None:
        Vu = np.vstack([np.full(n, V0[0]), np.full(n, V0[1])]) if kind == "euler2d" else np.full(n, V0)
        defs_u, cond_u = definitions(kind, gam, np.full(n, r0), Vu, np.full(n, p0), section)
        badu = []
        for name in names:
            if name not in defs_u:
                continue
            val, scale, conditioned = defs_u[name]
            try:
                got = np.asarray(fcu.phydata(name), float)
            except (IndexError, ValueError, TypeError) as e:
                badu.append("%s (%s)" % (name, type(e).__name__))
                continue
            if name == "mach":
                got, val = np.abs(got), np.abs(val)
            with np.errstate(all="ignore"):
                if got.shape != np.shape(val) or not np.all((np.abs(got - val) / scale / (cond_u if conditioned else 1.0) <= TOL) | ~_representable(val, scale)):
                    badu.append(name)
        ctx.true("uniform-field", not badu, "vars/%s/wrong-on-a-field-built-from-one-number-per-variable" % kind, {"wrong": badu, "ncell": n, "state": [r0, V0, p0]}, cls="vars:" + kind)
    ctx.info.setdefault("names_checked", {})
    ctx.info["names_checked"][kind] = sorted(names)
    ctx.nontrivial(kind, gam, rho[:3], p[:3])


@group(quick=200, thorough=6000)
def other_models(ctx, rng, idx):
    k = idx % 3
    mesh, _ = gen.mesh1d(rng, nmin=1, nmax=30)
    n = mesh.ncell
    if k == 0:
        g = float(rng.choice([9.81, 1.0, rng.uniform(0.5, 20)]))
        model = shw.shallowwater1d(g=g)
        gen.maybe_decoy(rng)
        h = 10 ** rng.uniform(-6, 6, n); u = rng.uniform(-10, 10, n) * np.sqrt(g * h)
        ctx.describe(model="shallowwater", g=g, h=h[:4], u=u[:4])
        cons = model.prim2cons([h.copy(), u.copy()])
        back = model.cons2prim([np.array(x, copy=True) for x in cons])
        sc = np.abs(u) + np.sqrt(g * h)
        ctx.close("roundtrip", max(np.max(np.abs(back[0] - h) / h), np.max(np.abs(back[1] - u) / sc)), TOL, "roundtrip/shallowwater", None, cls="roundtrip:shallowwater")
        f = ffield.fdata(model, mesh, cons)
        defs = {"height": (h, h), "massflow": (h * u, h * sc), "velocity": (u, sc)}
        for name in model.list_var():
            if name not in defs:
                ctx.true("vars-known", False, "vars/shallowwater/unknown-variable-name/" + name, None, cls="vars:shallowwater")
                continue
            got = np.asarray(f.phydata(name), float)
            if ctx.true("shape", got.shape == (n,), "vars/shallowwater/%s/shape" % name, {"shape": got.shape}, cls="vars:shallowwater"):
                ctx.close("vars:" + name, np.max(np.abs(got - defs[name][0]) / defs[name][1]), TOL, "vars/shallowwater/%s/not-its-definition" % name, None, cls="vars:shallowwater")
        ctx.nontrivial("sw", g, h[:3])
    else:
        model = conv.model(float(rng.uniform(-3, 3))) if k == 1 else burgers.model()
        mname = "convection" if k == 1 else "burgers"
        q = rng.uniform(-1, 1, n) * 10 ** rng.uniform(-6, 6, n)
        ctx.describe(model=mname, q=q[:4])
        cons = model.prim2cons([q.copy()])
        back = model.cons2prim([np.array(x, copy=True) for x in cons])
        ctx.true("roundtrip", np.array_equal(back[0], q) and np.array_equal(cons[0], q), "roundtrip/" + mname, None, cls="roundtrip:" + mname)
        f = ffield.fdata(model, mesh, cons)
        for name in model.list_var():
            got = np.asarray(f.phydata(name), float)
            ctx.true("vars", name == "q" and np.array_equal(got, q) and got.shape == (n,), "vars/%s/%s/not-its-definition" % (mname, name), None, cls="vars:" + mname)
        ctx.nontrivial(mname, q[:3])


@group(quick=150, thorough=5000)
def reuse_model(ctx, rng, idx):
    """ONE model object discretised on a first mesh, variables read, then discretised on a second mesh with the same number
    of cells but other cell centres, variables read again (twice): nothing may be remembered from the first mesh"""
    import flowdyn.modeldisc as md
    import flowdyn.xnum as xnum
    kind = ["nozzle", "nozzle", "euler1d"][idx % 3]
    gam = float(rng.choice([1.4, 5 / 3, 1.3]))
    n = int(rng.integers(2, 30))
    if kind == "nozzle":
        a, b = float(rng.uniform(0.5, 2)), float(rng.uniform(0.2, 0.8))
        sec = lambda x: a * (1 + b * np.sin(0.9 * x) ** 2 + 0.1 * x)
        model = euler.nozzle(sec, gamma=gam)
    else:
        sec = None
        model = euler.euler1d(gamma=gam)
    meshes = [gen.mesh1d(rng, ncell=n) for _ in range(2)] + [gen.mesh1d(rng, ncell=n + 1)]
    ctx.describe(model=kind, gamma=gam, ncell=n, meshes=[d for _, d in meshes])
    for which, (mesh, mdesc) in enumerate(meshes):
        md.fvm(model, mesh, xnum.extrapol1())            # (re)discretise the SAME model object: calls model.initdisc(mesh)
        nn = mesh.ncell
        rho, V, p = _euler_states(rng, nn, gam, False)
        section = sec(mesh.centers()) if sec is not None else None
        defs, cond = definitions(kind, gam, rho, V, p, section)
        f = ffield.fdata(model, mesh, model.prim2cons([rho.copy(), V.copy(), p.copy()]))
        keep = [d.copy() for d in f.data]
        for rep in range(2):
            for name in model.list_var():
                val, scale, conditioned = defs[name]
                got = np.asarray(f.phydata(name), float)
                if name == "mach":
                    got, val = np.abs(got), np.abs(val)
                if got.shape != (nn,):
                    ctx.true("reuse-shape", False, "reuse/%s/%s/shape-on-mesh-%d" % (kind, name, which), {"shape": got.shape}, cls="reuse:" + kind)
                    continue
                with np.errstate(all="ignore"):
                    err = np.max(np.where(_representable(val, scale), np.abs(got - val) / scale / (cond if conditioned else 1.0), 0.0))
                ctx.close("reuse:" + name, err, TOL, "reuse/%s/%s/not-its-definition-after-rediscretisation" % (kind, name), {"mesh number": which, "read": rep, "mesh": mdesc}, cls="reuse:" + kind)
        ctx.true("reuse-field-untouched", all(np.array_equal(x, y) for x, y in zip(f.data, keep)), "reuse/%s/field-modified-by-reading-variables" % kind, None, cls="reuse:" + kind)
    ctx.nontrivial("reuse", kind, gam, n, [d for _, d in meshes])
