"""C05 explicit Runge-Kutta integrators: tableau extraction from recorded stage arguments, order conditions,
stage abscissae, RK-ness for arbitrary right-hand sides, empirical order."""
import numpy as np

import flowdyn.field as ffield
import flowdyn.integration as tn

from .. import core, gen, probes
from ..core import group

ORDER = {"explicit": 1, "forwardeuler": 1, "rk2": 2, "rk2_heun": 2, "rk3_heun": 3, "rk3ssp": 3, "rk4": 4,
         "lsrk25bb": 2, "lsrk26bb": 2, "lsrk4": 2}
LINORDER = dict(ORDER, lsrk4=4)     # order on linear problems (stability polynomial = Taylor to that degree)
# Bogey & Bailly, JCP 194 (2004), table 2: optimised stability polynomial coefficients gamma_3...
BB = {"lsrk25bb": [1.0, 0.5, 0.165250353664, 0.039372585984, 0.007149096448],
      "lsrk26bb": [1.0, 0.5, 0.165919771368, 0.040919732041, 0.007555704391, 0.000891421261],
      "lsrk4": [1.0, 0.5, 1.0 / 6.0, 1.0 / 24.0]}
SSP1 = ["explicit", "forwardeuler", "rk2_heun", "rk3ssp"]


class _Model:
    def __init__(self, neq=1):
        self.neq, self.shape, self.islinear = neq, [1] * neq, 0


class _Mesh:
    def __init__(self, n):
        self.ncell = n


class RecDisc:
    """right-hand side that records the (time, data) presented to every evaluation and what it returned"""
    def __init__(self, fun, inner=None, returns="fresh"):
        """returns: how the right-hand side hands its result out -- 'fresh' arrays at every call, the same preallocated work
        'buffer' (same list, same arrays, overwritten at every call), or 'asis': whatever arrays the function returns, e.g. arrays
        it keeps and returns again (constant forcing, look-up tables).  All three are ordinary ways to write a right-hand side."""
        self.fun, self.calls, self.inner, self.returns, self._buf = fun, [], inner, returns, None
        if inner is not None:
            self.nelem = inner.nelem

    def rhs(self, f):
        k = len(self.calls)
        if self.returns == "views":
            # the right-hand side hands out VIEWS of the arrays of the field it was given (dq/dt = P q for a permutation P, written
            # as a slice of the input): whatever the integrator does to its stage field afterwards must not reach into them
            r = self.fun(k, f.time, f.data)
            self.calls.append((f.time, [d.copy() for d in f.data], [np.array(x, dtype=float).copy() for x in r]))
            return r
        r = self.fun(k, f.time, [d.copy() for d in f.data]) if self.inner is None else [x.copy() for x in self.inner.rhs(f)]
        self.calls.append((f.time, [d.copy() for d in f.data], [np.array(x, dtype=float).copy() for x in r]))
        if self.returns == "asis":
            return r
        if self.returns == "buffer":
            if self._buf is None:
                self._buf = [np.array(x, dtype=float) for x in r]
            else:
                for bf, x in zip(self._buf, r):
                    bf[...] = x
            return self._buf
        return [np.array(x, dtype=float) for x in r]

    def __getattr__(self, name):
        if name in ("inner", "fun", "calls") or self.__dict__.get("inner") is None:
            raise AttributeError(name)
        return getattr(self.inner, name)


def extract(iname, dt=1.0, t0=0.0, returns="fresh"):
    """Butcher tableau (A, b, c_presented) spelled out by the real step on unit-vector stage derivatives"""
    s = gen.NSTAGE[iname]
    E = np.eye(s)          # with returns='asis' the right-hand side hands out rows of this stored matrix (views)
    disc = RecDisc(lambda k, t, d: [E[k] if k < s else np.full(s, np.nan)], returns=returns)
    solver = gen.integ(iname)(_Mesh(s), disc)
    f = ffield.fdata(_Model(), _Mesh(s), [np.zeros(s)], t=t0)
    solver.step(f, dt)
    ncall = len(disc.calls)
    A = np.array([disc.calls[k][1][0] for k in range(min(ncall, s))]) / dt
    b = f.data[0] / dt
    c = np.array([(disc.calls[k][0] - t0) / dt for k in range(min(ncall, s))])
    return A, b, c, ncall, (f.time - t0) / dt


_SOLVE = {"on": False}


def _rk_step_observer(solver, tok, f_after):
    """every outermost step() taken INSIDE an observed solve (main steps, snapshot side steps on integrator copies, steps after
    monitors ran) must be the RK step of the extracted tableau applied to the real right-hand side"""
    if not _SOLVE["on"]:
        return
    ctx, A, b, rhs, iname = _SOLVE["ctx"], _SOLVE["A"], _SOLVE["b"], _SOLVE["rhs"], _SOLVE["iname"]
    before = tok["before"]
    dt = tok["dt"]
    if not all(np.all(np.isfinite(d)) for d in before["data"]) or not np.all(np.isfinite(dt)):
        return
    s = len(b)
    c = A.sum(axis=1)
    ks = []
    with probes.quiet():
        for i in range(s):
            data = [before["data"][q] + dt * sum(A[i, j] * ks[j][q] for j in range(i)) for q in range(len(before["data"]))]
            ks.append([np.array(x, float, copy=True) for x in rhs(before["time"] + c[i] * float(np.min(dt)), data)])
    if not all(np.all(np.isfinite(x)) for k in ks for x in k):
        return
    worst = 0.0
    for q in range(len(before["data"])):
        exp = before["data"][q] + dt * sum(b[j] * ks[j][q] for j in range(s))
        sc = np.max(np.abs(before["data"][q])) + np.max(np.abs(dt)) * max(np.max(np.abs(k[q])) for k in ks) + 1e-300
        worst = max(worst, float(np.max(np.abs(np.asarray(f_after.data[q], float) - exp)) / sc))
    _SOLVE["steps"] += 1
    ctx.close("solve-step-is-rk", worst, 1e-12, "solve/%s/step-inside-solve-is-not-the-runge-kutta-step" % iname, {"step starts at time": before["time"], "dt": dt, "context": _SOLVE["what"]}, cls="solve-steps:" + iname)


def setup(ctx):
    from .. import solvelog
    solvelog.install(with_solve=False)
    solvelog.STEP_OBSERVERS.append(_rk_step_observer)
    ctx.on_begin.append(solvelog.reset)
    ctx.require(*["solve-steps:" + n for n in gen.EXPLICIT])
    ctx.require(*["tableau:" + n for n in gen.EXPLICIT], *["rkness:" + n for n in gen.EXPLICIT], *["order:" + n for n in gen.EXPLICIT], "rkness-zero-first-stage", "rkness-after-previous-step")


def _order_conditions(A, b, p):
    c = A.sum(axis=1)
    conds = [("sum b", b.sum(), 1.0)]
    if p >= 2:
        conds.append(("b.c", b @ c, 0.5))
    if p >= 3:
        conds += [("b.c^2", b @ c ** 2, 1 / 3), ("b.A.c", b @ A @ c, 1 / 6)]
    if p >= 4:
        conds += [("b.c^3", b @ c ** 3, 0.25), ("b.(c*Ac)", b @ (c * (A @ c)), 0.125), ("b.A.c^2", b @ A @ c ** 2, 1 / 12), ("b.A.A.c", b @ A @ A @ c, 1 / 24)]
    return conds


def _ssp_ok(A, b, r=1.0):
    """Kraaijevanger: the method is a convex combination of forward-Euler steps of size dt/r"""
    s = len(b)
    K = np.zeros((s + 1, s + 1)); K[:s, :s] = A; K[s, :s] = b
    M = np.eye(s + 1) + r * K
    P = r * K @ np.linalg.inv(M)
    e = np.linalg.inv(M) @ np.ones(s + 1)
    return bool(np.all(P >= -1e-13) and np.all(e >= -1e-13))


@group(quick=len(gen.EXPLICIT) * 6, thorough=len(gen.EXPLICIT) * 60)
def tableau(ctx, rng, idx):
    iname = gen.EXPLICIT[idx % len(gen.EXPLICIT)]
    k = idx // len(gen.EXPLICIT)
    dt = 1.0 if k == 0 else float(10 ** rng.uniform(-6, 6))
    t0 = 0.0 if k < 2 else float(rng.uniform(-10, 10))
    A, b, c, ncall, adv = extract(iname, dt, t0)
    s = gen.NSTAGE[iname]
    ctx.describe(integrator=iname, dt=dt, t0=t0, A=A, b=b, c_presented=c)
    cls = "tableau:" + iname
    tol = 1e-13 if dt == 1.0 and t0 == 0 else 1e-9
    ctx.true("ncalls", ncall == s, "tableau/%s/stage-count" % iname, {"calls": ncall, "expected": s}, cls=cls)
    if ncall != s:
        return
    ctx.true("explicit", np.all(np.triu(A) == 0), "tableau/%s/not-explicit" % iname, {"A": A}, cls=cls)
    for name, val, exp in _order_conditions(A, b, ORDER[iname]):
        ctx.close("ordercond", abs(val - exp), 4 * np.finfo(float).eps if name == "sum b" and dt == 1.0 else tol,
                  "tableau/%s/order-condition/%s" % (iname, name), {"value": val, "expected": exp}, cls=cls)
    csum = A.sum(axis=1)
    ctx.close("stage-time", np.max(np.abs(c - csum)), tol * max(1.0, abs(t0) / dt) * 10, "tableau/%s/stage-time-not-abscissa" % iname,
              {"presented": c, "row sums": csum}, cls=cls)
    ctx.close("time-advance", abs(adv - 1.0), 8 * s * np.finfo(float).eps * max(1.0, abs(t0) / dt), "tableau/%s/time-advance" % iname, {"advance/dt": adv}, cls=cls)
    if iname in BB:
        gam = [b @ np.linalg.matrix_power(A, j) @ np.ones(s) for j in range(s)]
        ref = BB[iname]
        ctx.close("stability-polynomial", np.max(np.abs(np.array(gam) - np.array(ref))), 1e-9 if iname != "lsrk4" else 1e-13,
                  "tableau/%s/stability-polynomial" % iname, {"gamma": gam, "published": ref}, cls=cls)
    if iname in SSP1:
        ctx.true("ssp", _ssp_ok(A, b, 1.0), "tableau/%s/not-ssp" % iname, {"A": A, "b": b}, cls=cls)
    # the library's own amplification factor (timemodel.propagator: one real step on dq/dt = z q) is the stability function of the
    # extracted tableau, R(z) = 1 + z b.(I - zA)^-1.1, for complex z given as an array, a python complex and a numpy scalar
    zs = (rng.uniform(-3, 1, 6) + 1j * rng.uniform(-3, 3, 6)) * float(rng.choice([1.0, 0.1, 1e-3]))
    R = np.array([1 + z * (b @ np.linalg.solve(np.eye(s) - z * A, np.ones(s))) for z in zs])
    solver = gen.integ(iname)(_Mesh(1), None)
    with probes.quiet():
        got = [np.asarray(solver.propagator(zs.copy())), np.array([np.asarray(solver.propagator(complex(z))).ravel()[0] for z in zs]), np.array([np.asarray(solver.propagator(np.complex128(z))).ravel()[0] for z in zs])]
    for form, g in zip(("array", "python complex", "numpy scalar"), got):
        ctx.close("propagator", float(np.max(np.abs(g - R) / (1 + np.abs(R)))), 1e-12, "tableau/%s/propagator-is-not-the-stability-function-of-the-step" % iname, {"z": zs, "propagator": g, "R(z)": R, "argument": form}, cls=cls)
    ctx.true("propagator", solver.modeldisc is None, "tableau/%s/propagator-does-not-restore-the-discretisation" % iname, None, cls=cls)
    if iname in BB and k == 0:
        try:
            with probes.quiet():
                cm = float(np.asarray(solver.cflmax()).ravel()[0])
        except RuntimeError:
            cm = None          # "may not converge" (documented)
        if cm is not None:
            zz = 1j * cm
            ctx.close("cflmax", abs(abs(1 + zz * (b @ np.linalg.solve(np.eye(s) - zz * A, np.ones(s)))) - 1.0), 1e-8, "tableau/%s/cflmax-not-on-the-stability-boundary" % iname, {"cflmax": cm}, cls=cls)
    # the coefficients do not depend on how the right-hand side hands its arrays out (work buffer reused, stored arrays)
    for mode in ("buffer", "asis"):
        A2, b2, c2, ncall2, adv2 = extract(iname, dt, t0, returns=mode)
        same = ncall2 == ncall and np.array_equal(A2, A) and np.array_equal(b2, b) and np.array_equal(c2, c)
        ctx.true("rhs-array-ownership", same, "tableau/%s/coefficients-depend-on-how-the-rhs-returns-its-arrays/%s" % (iname, "reused-work-buffer" if mode == "buffer" else "stored-arrays"),
                 {"A": A, "A with this rhs": A2, "b": b, "b with this rhs": b2}, cls=cls)
    ctx.nontrivial("tableau", iname, dt, t0)


def _nonlinear_rhs(rng, n):
    """random smooth nonlinear, state- and time-dependent right-hand side on R^n"""
    W = rng.uniform(-1, 1, (n, n)); w2 = rng.uniform(-1, 1, n); om = rng.uniform(0.5, 3, n); ph = rng.uniform(0, 6, n)
    tz = None
    def fun(k, t, d):
        y = d[0]
        r = np.tanh(W @ y) + w2 * y * y * 0.3 + np.sin(om * t + ph) * (1 + 0.5 * y)
        return [r if tz is None else (t - tz) * r]
    def vanish_at(t0):
        # forcing switched on at the start of the step: the right-hand side is exactly zero at (t0, y0) and nowhere else
        nonlocal tz
        tz = t0
    fun.vanish_at = vanish_at
    return fun, {"W": W, "w2": w2, "omega": om, "phase": ph}


@group(quick=len(gen.EXPLICIT) * 30, thorough=len(gen.EXPLICIT) * 1500)
def rkness(ctx, rng, idx):
    """for ANY rhs the recorded stage derivatives reproduce every stage input and the result through (A, b)"""
    iname = gen.EXPLICIT[idx % len(gen.EXPLICIT)]
    A, b, c, ncall, adv = extract(iname)
    s = gen.NSTAGE[iname]
    real = (idx // len(gen.EXPLICIT)) % 3 == 2
    cls = "rkness:" + iname
    if real:
        scn = gen.scenario1d(rng, nmax=12, fluxes=gen.UPWIND_FLUXES, mach_max=1.5)
        disc = RecDisc(None, inner=scn.disc)
        f0 = scn.field
        n, mesh = scn.mesh.ncell, scn.mesh
        dts = scn.disc.calc_timestep(f0, 0.3)
        localdt = bool(rng.random() < 0.3)
        dt = np.array(dts, float) if localdt else float(np.min(dts))
        ctx.describe(integrator=iname, rhs="flowdyn discretisation", localdt=localdt, **scn.desc())
        if not np.all(np.isfinite(dts)):
            raise core.Skip("infinite dt")
    else:
        n = int(rng.integers(1, 7))
        fun, fdesc = _nonlinear_rhs(rng, n)
        mode = str(rng.choice(["fresh", "fresh", "buffer", "stored", "views"]))
        mesh = _Mesh(n)
        f0 = ffield.fdata(_Model(), mesh, [rng.uniform(-1, 1, n)], t=float(rng.uniform(-2, 2)))
        localdt = bool(rng.random() < 0.3)
        dt = 10 ** rng.uniform(-3, 0, n) if localdt else float(10 ** rng.uniform(-4, 0))
        if mode == "stored":
            # forcing read from a look-up table in time: the right-hand side returns arrays it KEEPS (and returns again)
            table = [rng.uniform(-1, 1, n) for _ in range(2)]
            pristine = [x.copy() for x in table]
            tsplit = f0.time + float(np.min(dt)) * float(rng.choice([0.3, 0.6, 2.0, -1.0]))
            fun = lambda k, t, d: [table[0] if t <= tsplit else table[1]]
            fdesc = {"forcing": "stored arrays table[t > tsplit]", "table": pristine, "tsplit": tsplit}
        elif mode == "views":
            stride = int(rng.choice([-1, -1, 1]))
            fun = (lambda k, t, d: [d[0][::-1]]) if stride == -1 else (lambda k, t, d: [d[0][:]])       # reversed view / plain view of the input
            fdesc = {"forcing": "dq/dt = P q returned as a %s of the input array" % ("reversed view" if stride == -1 else "plain view")}
        elif rng.random() < 0.25:
            fun.vanish_at(f0.time)
            fdesc["rhs_vanishes_at_step_start"] = True
        disc = RecDisc(fun, returns="asis" if mode == "stored" else mode)
        fdesc["rhs_returns"] = {"fresh": "fresh arrays", "buffer": "one work buffer overwritten at every call", "stored": "arrays it keeps", "views": "views of the arrays of the field it was given"}[mode]
        ctx.describe(integrator=iname, rhs="random nonlinear", localdt=localdt, dt=dt, y0=f0.data[0], t0=f0.time, **fdesc)
    solver = gen.integ(iname)(mesh, disc)
    f = f0.copy()
    if (idx // (3 * len(gen.EXPLICIT))) % 2 == 1:
        # the SAME integrator object has already taken a step (other dt, scalar <-> array): nothing may be remembered from it
        pre = f0.copy()
        dtpre = (np.full(np.shape(f0.data[0])[-1], float(np.min(dt)) * 0.37) if np.ndim(dt) == 0 else float(np.min(dt)) * 1.9)
        solver.step(pre, dtpre)
        del disc.calls[:]
        ctx.ev("rkness-after-previous-step")
    # the time step in every form a caller may use for ONE global value: python float, numpy scalar, 0-d array, array of shape (1,) --
    # and the observed step may be the second or third CONSECUTIVE step on the same field object (what a loop over step() does)
    dt_arg = dt
    if np.ndim(dt) == 0:
        form = int(rng.integers(4))
        dt_arg = [float(dt), np.float64(dt), np.array(float(dt)), np.array([float(dt)])][form]
        ctx.describe(dt_given_as=["python float", "numpy scalar", "0-d array", "array of shape (1,)"][form])
    nprev = int(rng.integers(0, 3)) if not (not real and fdesc.get("rhs_vanishes_at_step_start")) else 0
    for _ in range(nprev):
        solver.step(f, dt_arg)
    if nprev:
        if not all(np.all(np.isfinite(d)) for d in f.data) or not np.all(np.isfinite(np.asarray(f.time, float))):
            raise core.Skip("nonfinite after the preceding steps")
        ctx.true("time-is-a-number", np.ndim(f.time) == 0, "rkness/%s/field-time-not-a-scalar-after-a-step" % iname, {"time": f.time, "dt given as": type(dt_arg).__name__, "shape": np.shape(dt_arg)}, cls=cls)
        f0 = ffield.fdata(f.model, f.mesh, [np.array(d, copy=True) for d in f.data], t=float(np.asarray(f.time, float).ravel()[0]))
        del disc.calls[:]
        ctx.describe(consecutive_steps_before_the_observed_one=nprev)
    solver.step(f, dt_arg)
    calls = disc.calls
    ctx.true("ncalls", len(calls) == s, "rkness/%s/stage-count" % iname, {"calls": len(calls)}, cls=cls)
    if len(calls) != s or not all(np.all(np.isfinite(x)) for cl in calls for x in cl[2]):
        return
    if not real and fdesc.get("rhs_vanishes_at_step_start"):
        ctx.ev("rkness-zero-first-stage")
    dtmin = float(np.min(dt))
    neq = len(f0.data)
    if not real and mode == "stored":
        # what the right-hand side returned at (t, y) must be what its definition says: its own arrays are not the integrator's to change
        okv = all(np.array_equal(cl[2][0], pristine[0] if cl[0] <= tsplit else pristine[1]) for cl in calls) and all(np.array_equal(x, y) for x, y in zip(table, pristine))
        ctx.true("rhs-array-ownership", okv, "rkness/%s/arrays-kept-by-the-right-hand-side-modified-by-the-integrator" % iname,
                 {"table now": table, "table as defined": pristine, "values returned": [cl[2][0] for cl in calls]}, cls=cls)
        expf = f0.data[0] + dt * sum(b[j] * (pristine[0] if calls[j][0] <= tsplit else pristine[1]) for j in range(s))
        ctx.close("result", np.max(np.abs(f.data[0] - expf)) / (np.max(np.abs(f0.data[0])) + np.max(np.abs(dt)) + 1e-300), 1e-13, "rkness/%s/result-with-stored-forcing-arrays" % iname, None, cls=cls)
    for q in range(neq):
        scale = np.max(np.abs(f0.data[q])) + np.max(np.abs(dt)) * max(np.max(np.abs(cl[2][q])) for cl in calls) + 1e-300
        for i in range(s):
            exp = f0.data[q] + dt * sum(A[i, j] * calls[j][2][q] for j in range(i))
            ctx.close("stage-input", np.max(np.abs(calls[i][1][q] - exp)) / scale, 1e-13, "rkness/%s/stage-input" % iname, {"stage": i, "eq": q}, cls=cls)
        with np.errstate(all="ignore"):
            exp = f0.data[q] + dt * sum(b[j] * calls[j][2][q] for j in range(s))
            got_ = np.asarray(f.data[q], float)
            fin = np.isfinite(exp) & np.isfinite(got_)
            # a blown-up local-time-step run (Burgers cell with u ~ 0: a step thousands of times its neighbours') overflows in the last
            # combination, in the step and in its recomputation alike: inf - inf is not a difference (thorough-tier witness); the
            # overflow must be in the same places, the finite entries are compared
            if not np.all(fin):
                ctx.true("result", np.array_equal(np.isfinite(exp), np.isfinite(got_)) or not np.isfinite(scale), "rkness/%s/result-finite-where-the-tableau-overflows" % iname, {"eq": q}, cls=cls)
            err_ = float(np.max(np.abs(got_[fin] - exp[fin]))) / scale if np.any(fin) and np.isfinite(scale) else 0.0
        ctx.close("result", err_, 1e-13, "rkness/%s/result" % iname, {"eq": q}, cls=cls)
    csum = A.sum(axis=1)
    for i in range(s):
        ctx.close("stage-time", abs((calls[i][0] - f0.time) - csum[i] * dtmin) / dtmin, 1e-9 * max(1.0, abs(f0.time) / dtmin),
                  "rkness/%s/stage-time-not-abscissa" % iname, {"stage": i, "presented": calls[i][0] - f0.time, "expected": csum[i] * dtmin}, cls=cls)
    ctx.close("time-advance", abs(f.time - f0.time - dtmin) / dtmin, 1e-9 * max(1.0, abs(f0.time) / dtmin), "rkness/%s/time-advance" % iname, None, cls=cls)
    ctx.nontrivial("rkness", iname, real, localdt, f0.data[0][:3], np.ravel(dt)[:2])


def _solve_ode(iname, fun, y0, t0, T, nstep, ncheck=8):
    """returns the solution at ncheck equally spaced checkpoints (nstep must be a multiple of ncheck)"""
    n = len(y0)
    disc = RecDisc(fun)
    solver = gen.integ(iname)(_Mesh(n), disc)
    f = ffield.fdata(_Model(), _Mesh(n), [np.array(y0, float)], t=t0)
    dt = (T - t0) / nstep
    out = []
    for k in range(nstep):
        solver.step(f, dt)
        if (k + 1) % (nstep // ncheck) == 0:
            out.append(f.data[0].copy())
    return np.array(out)


@group(quick=len(gen.EXPLICIT) * 4, thorough=len(gen.EXPLICIT) * 100)
def order(ctx, rng, idx):
    """empirical order on a non-autonomous nonlinear ODE (where a wrong stage time shows in the solution)"""
    iname = gen.EXPLICIT[idx % len(gen.EXPLICIT)]
    n = int(rng.integers(1, 4))
    a = rng.uniform(0.5, 1.5, n); om = rng.uniform(1.0, 4.0, n); ph = rng.uniform(0, 6, n)
    # cubic damping keeps the solution bounded for either sign (a quadratic term lets y run away once the forcing drives it negative)
    fun = lambda k, t, d: [-a * d[0] ** 3 * 0.3 + np.sin(om * t + ph) * d[0] + np.cos(2 * om * t) * 2.0]
    y0 = rng.uniform(0.5, 1.5, n); t0 = float(rng.uniform(-1, 1)); T = t0 + 1.0
    from scipy.integrate import solve_ivp      # independent reference (not a flowdyn integrator)
    tchk = t0 + (T - t0) * (np.arange(8) + 1) / 8.0
    sol = solve_ivp(lambda t, y: fun(0, t, [y])[0], (t0, T), y0, method="DOP853", rtol=1e-13, atol=1e-14, t_eval=tchk)
    ref = sol.y.T
    errs = []
    levels = [32, 64, 128, 256] if ORDER[iname] <= 2 else [16, 32, 64, 128]
    for ns in levels:
        # error = max over 8 checkpoints and all components: the error at one single time can pass through zero as dt varies
        errs.append(np.max(np.abs(_solve_ode(iname, fun, y0, t0, T, ns) - ref)))
    errs = np.array(errs)
    p = np.log2(errs[:-1] / errs[1:])
    ctx.describe(integrator=iname, ode="y'=-0.3 a y^3+sin(w t+phi) y+2cos(2 w t)", a=a, omega=om, phase=ph, y0=y0, t0=t0, errors=errs, observed_orders=p)
    floor = errs[-1] < 1e-11
    slope = float(np.polyfit(np.log(1.0 / np.array(levels[1:], float)), np.log(errs[1:]), 1)[0]) if np.all(errs > 0) else 99.0
    ctx.true("order", floor or slope >= ORDER[iname] - 0.35, "order/%s/below-nominal" % iname,
             {"orders": p, "slope (3 finest levels)": slope, "errors": errs, "nominal": ORDER[iname]}, cls="order:" + iname)
    ctx.nontrivial("order", iname, a, om)


@group(quick=len(gen.EXPLICIT) * 12, thorough=len(gen.EXPLICIT) * 400)
def solve_steps(ctx, rng, idx):
    """real solves / restarts with residual and data_average monitors, save times inside steps, dtlocal: EVERY step taken (main
    steps and snapshot side steps) is re-computed by the observer from the extracted tableau and must match"""
    iname = gen.EXPLICIT[idx % len(gen.EXPLICIT)]
    A, b, c, ncall, adv = extract(iname)
    scn = gen.scenario1d(rng, nmax=10, fluxes=gen.UPWIND_FLUXES, mach_max=1.2, ratio=4.0, recons=["extrapol1", "extrapol2", "muscl_minmod", "muscl_vanleer", "extrapol3"])
    cfl = float(rng.uniform(0.1, 0.35))
    n = int(rng.integers(3, 9))
    dtc = scn.disc.calc_timestep(scn.field, cfl)
    if not np.all(np.isfinite(dtc)):
        raise core.Skip("infinite dt")
    dt0 = float(np.min(dtc))
    tsave = sorted(float(scn.field.time + dt0 * x) for x in rng.uniform(0.2, n - 0.5, int(rng.integers(1, 5))))
    mons = {}
    if rng.random() < 0.8:
        mons["residual"] = {"frequency": int(rng.integers(1, 3))}
    names = {"convection": "q", "euler": "density", "shallowwater": "height"}.get(scn.model.equation)
    if names and rng.random() < 0.5:
        mons["avg"] = {"type": "data_average", "data": names, "frequency": int(rng.integers(1, 3))}
    dtlocal = bool(rng.random() < 0.2)
    what = {"monitors": {k: dict(v) for k, v in mons.items()}, "tsave": tsave, "dtlocal": dtlocal}
    ctx.describe(integrator=iname, cfl=cfl, maxit=n, **what, **scn.desc())
    import flowdyn.field as ffield_
    def rhs(t, data):
        return scn.disc.rhs(ffield_.fdata(scn.model, scn.mesh, data, t=t))
    _SOLVE.update(on=True, ctx=ctx, A=A, b=b, rhs=rhs, iname=iname, steps=0, what=what)
    try:
        solver = gen.integ(iname)(scn.mesh, scn.disc, monitors={"ctor_res": {"type": "residual", "frequency": 2}} if rng.random() < 0.3 else {})
        res = solver.solve(scn.field, cfl, tsave, stop={"maxit": n, "tottime": 1e30}, monitors=mons, directives={"dtlocal": True} if dtlocal else {})
        if rng.random() < 0.5 and all(np.all(np.isfinite(d)) for d in res[-1].data):
            solver.restart(res[-1], cfl * 0.8, stop={"maxit": 2})          # restart (without the per-call monitors), then a direct step
            g = res[0].copy()
            solver.step(g, dt0 * 0.5)
    finally:
        _SOLVE["on"] = False
    if _SOLVE["steps"]:
        ctx.nontrivial("solve-steps", iname, cfl, n, what, scn.desc())
