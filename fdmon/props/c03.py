"""C03 uniform / compatible steady states are fixed points of the space operator and of every integrator."""
import numpy as np

import flowdyn.modeldisc as md
import flowdyn.mesh2d as fmesh2d
import flowdyn.xnum as xnum
import flowdyn.field as ffield
import flowdyn.modelphy.euler as euler

from .. import core, gen, probes, refs
from ..core import group

TOL = 1e-9          # x (1 + 1/M^2 conditioning of total-pressure inlets); measured worst ~3e-14 for M >= 0.05
OUTLETS = ["outsub", "outsub_prim", "outsub_qtot", "outsub_nrcbc", "outsub_rh", "outsup"]
INLETS = ["insub", "insub_cbc", "insup"]
MACHS = [0.0, 1e-7, 1e-5, 1e-3, 0.02, 0.1, 0.3, 0.5, 0.8, 0.95, 1.05, 1.5, 3.0]


def _cond_rhs(cond):
    """conditioning of ONE operator evaluation, residual measured against the acoustic flux scale rho (|u|+c)^k: a total-pressure
    condition recovers M^2 to round-off, i.e. the Mach number to eps/M (not eps/M^2, which is the error relative to the velocity
    itself and the per-step amplification of a solve) -- with 1/M^2 a wrong inlet state below Mach 1e-4 would pass"""
    # used ADDITIVELY (tolerance = TOL + 1e3 eps / M): dividing the error by 1/M would again hide an error of relative size M, which is
    # exactly what an inlet that imposes no velocity at all produces
    return np.sqrt(cond) if np.isfinite(cond) else cond


def _judge_drift(ctx, tag, rng, solve, f, fe, qs, nunit, cond, key, known_mechanism, detail):
    """`fe = solve(f)` must be `f` again.  The drift, per step and stage and measured against the state scale, is allowed the round-off
    of ONE boundary evaluation (eps/M for a total-pressure condition) -- NOT compounded over the steps: a boundary closure that is a
    stable discretisation does not amplify its own round-off.  When the drift is larger, the monitor measures what the same solve
    does to a perturbation of 1e-12 (twin run) and the round-off is carried with that amplification (never below 1); a drift beyond
    it is a violation under `key`.  A large amplification means the uniform state is a linearly UNSTABLE fixed point at this step size:
    for the pressure-extrapolating total-pressure conditions (`insub`, `outsub_qtot`: below Mach ~ CFL/4 with explicit integrators) that
    is finding D21, reported under its own mechanism key only for those conditions and only while the drift stays within what the
    measured amplification explains; configurations that amplify by more than 1e4 for another reason (no dissipation at all, D20's
    Jacobian noise on sliver meshes) hold no state whatever and are not judged on the solve (the operator check rhs1d judges them)."""
    eps = np.finfo(float).eps
    tol1 = TOL + 1e4 * eps * _cond_rhs(cond)          # (1e3 for one operator evaluation; a step chains up to six of them)
    d = [float(np.max(np.abs(np.asarray(fe.data[i]) - np.asarray(f.data[i])))) / qs[i] / nunit for i in range(len(qs))]
    worst = int(np.argmax(d)) if np.all(np.isfinite(d)) else int(np.argmax(~np.isfinite(d)))
    if np.isfinite(d[worst]) and d[worst] <= tol1:
        for i in range(len(qs)):
            ctx.close(tag, d[i], tol1, key, dict(detail, eq=i), cls=tag.split(":")[0])
        return
    # amplification of a small perturbation by the very same solve
    pert = 1e-12
    f2 = f.copy()
    for i in range(len(qs)):
        f2.data[i] = f2.data[i] + pert * qs[i] * rng.standard_normal(np.shape(f2.data[i]))
    with np.errstate(all="ignore"):
        base, twin = solve(f.copy()), solve(f2)
    amp = max(float(np.max(np.abs(np.asarray(twin.data[i]) - np.asarray(base.data[i])))) / qs[i] for i in range(len(qs))) / pert
    ctx.info["amplification_measured"] = ctx.info.get("amplification_measured", 0) + 1
    det = dict(detail, eq=worst, drift_per_step_and_stage=d[worst], allowed_without_amplification=tol1, measured_amplification=amp)
    # (below Mach 1e-3 the instability saturates within one stage -- gain CFL/(2M) > 300 per stage, the linear range of the closure is
    # dp/p << M^2 -- so no perturbation a double can carry measures it: there the mechanism is recognised by its conditions alone)
    saturated = detail.get("mach") is not None and abs(detail["mach"]) < 1e-3
    if known_mechanism and np.isfinite(d[worst]) and ((np.isfinite(amp) and amp > 10.0 and d[worst] <= tol1 * amp * 1e3) or saturated):
        ctx.info["unstable_fixed_points"] = ctx.info.get("unstable_fixed_points", 0) + 1
        ctx.ev(tag.split(":")[0])
        ctx.fail(known_mechanism, det)
        return
    if not np.isfinite(amp) or amp > 1e4:
        # an unstable configuration of the user's own choosing (no dissipation at all: centred flux with a centred reconstruction and
        # forward Euler / local time steps / sliver cells, D20's Jacobian noise ...): no state at all is held by it, the uniform one included;
        # what the property promises -- a fixed point -- is judged on the operator (rhs1d) and on stable configurations
        ctx.skip("unstable configuration (a 1e-12 perturbation grows > 1e4 over the run): drift not judged")
        return
    # round-off is carried with whatever the configuration does to perturbations (measured on the real code, never below 1)
    ctx.close(tag, d[worst], tol1 * max(1.0, amp), key, det, cls=tag.split(":")[0])


UNSTABLE_CLOSURES = ("insub", "outsub_qtot")          # extrapolate the interior pressure and rebuild the velocity from a total pressure


def setup(ctx):
    ctx.require("rhs1d", "solve1d", "rhs2d", "solve2d", "nozzle-rest", "mirror-pair")


def _euler_bcs(rng, rho, u, p, gam):
    """a matching pair of boundary conditions for the uniform state (inlet upstream, outlet downstream)"""
    pt, rtt = refs.totals(rho, u, p, gam)
    kind = str(rng.choice(["per", "dirichlet", "inout", "inout", "inout"]))
    if kind == "per":
        return {"type": "per"}, {"type": "per"}, kind
    if kind == "dirichlet":
        d = {"type": "dirichlet", "prim": [rho, u, p]}
        return d, dict(d), kind
    inl = {"type": str(rng.choice(INLETS)), "ptot": float(pt), "rttot": float(rtt), "p": float(p)}
    out = {"type": str(rng.choice(OUTLETS)), "p": float(p)}
    if u > 0 or (u == 0 and rng.random() < 0.5):
        return inl, out, "%s-%s" % (inl["type"], out["type"])
    return out, inl, "%s-%s(reversed)" % (out["type"], inl["type"])


def _uniform_scn(rng, mname=None, big=0.0):
    mname = mname or str(rng.choice(["convection", "burgers", "shallowwater", "euler1d", "euler1d", "euler1d", "nozzle"]))
    model, mparams = gen.make_model(mname, rng)
    mesh, mdesc = gen.mesh1d(rng, nmin=1 if rng.random() < 0.1 else 3, nmax=20, big=big, lscale=0.1 if big else 0.0)
    num, rname = gen.any_recon(rng)
    fl = gen.FLUXES[mname]
    flux = fl[int(rng.integers(len(fl)))]
    n = mesh.ncell
    cond = 1.0
    if mname in ("convection", "burgers"):
        v = float(rng.choice([0.0, 1.0, -1.0, rng.uniform(-3, 3), 10 ** rng.uniform(-3, 3)]))
        if mname == "burgers" and v == 0.0:
            v = 0.5
        prim = [np.full(n, v)]
        kind = str(rng.choice(["per", "dirichlet"]))
        bcL = bcR = {"type": "per"} if kind == "per" else {"type": "dirichlet", "prim": [v]}
        fs = [abs(v) * (abs(model.convcoef) if mname == "convection" else abs(v)) + 1e-300]
        qs = [abs(v) + 1e-300]
    elif mname == "shallowwater":
        h = float(10 ** rng.uniform(-3, 3)); fr = float(rng.choice(MACHS) * rng.choice([-1, 1]))
        u = fr * np.sqrt(model.g * h)
        prim = [np.full(n, h), np.full(n, u)]
        kind = str(rng.choice(["per", "dirichlet", "inf"] + (["sym"] if u == 0 else [])))
        bcL = bcR = {"type": kind, "prim": [h, u]} if kind == "dirichlet" else {"type": kind}
        s = abs(u) + np.sqrt(model.g * h)
        fs = [h * s, h * s * s]; qs = [h, h * s]
    else:
        gam = model.gamma
        rho, p = float(10 ** rng.uniform(-3, 3)), float(10 ** rng.uniform(-3, 3))
        mach = float(rng.choice(MACHS + [float(np.round(rng.uniform(0.02, 3), 3))]) * rng.choice([-1, 1]))
        u = mach * np.sqrt(gam * p / rho)
        prim = [np.full(n, rho), np.full(n, u), np.full(n, p)]
        bcL, bcR, kind = _euler_bcs(rng, rho, u, p, gam)
        types = kind.replace("(reversed)", "").split("-")
        # subsonic conditions on a supersonic stream (and vice versa) keep the state a fixed point of the operator but make the
        # initial-boundary-value problem ill-posed: round-off grows exponentially over several steps (thorough-tier witness)
        if len(types) == 2 and (((abs(mach) > 1) and any(t.startswith(("insub", "outsub")) for t in types)) or ((abs(mach) < 1) and any(t in ("insup", "outsup") for t in types))):
            desc_illposed = True
        else:
            desc_illposed = False
        # conditions that recover a Mach number from a total-to-static pressure ratio lose 1/M^2 (and sqrt(eps) at M = 0)
        if any(t in kind.replace("(reversed)", "").split("-") for t in ("insub", "insub_cbc", "insup", "outsub_qtot")):
            cond = 1.0 + 1.0 / mach ** 2 if mach != 0 else float("inf")
        s = abs(u) + np.sqrt(gam * p / rho)
        fs = [rho * s, rho * s * s, rho * s ** 3]; qs = [rho, rho * s, rho * s * s]
    disc = md.fvm(model, mesh, num, numflux=flux, bcL=bcL, bcR=bcR)
    how = str(rng.choice(["arrays", "fdata_fromprim(scalars)", "fdata_fromprim(arrays)"]))
    if how == "arrays":
        f = gen.fdata_prim(model, mesh, prim)
    elif how == "fdata_fromprim(scalars)":       # the way a user writes a uniform state: one python number per variable
        f = disc.fdata_fromprim([float(x[0]) for x in prim])
    else:
        f = disc.fdata_fromprim([np.array(x) for x in prim])
    desc = {"field_built_by": how, "model": mname, "params": mparams, "flux": flux, "recon": rname, "mesh": mdesc, "bcL": bcL, "bcR": bcR,
            "state": [float(x[0]) for x in prim], "ill_posed_boundary_pair": bool(locals().get("desc_illposed", False))}
    return model, mesh, disc, f, desc, fs, qs, cond, kind


@group(quick=1500, thorough=60000)
def rhs1d(ctx, rng, idx):
    model, mesh, disc, f, desc, fs, qs, cond, kind = _uniform_scn(rng, big=0.03)
    ctx.describe(**desc)
    r = disc.rhs(f)
    dxmin = float(np.min(mesh.vol()))
    if not np.isfinite(cond):
        cond = 1.0          # exactly at rest the boundary state is exact (ptot/p == 1 gives M = 0 exactly)
    for i in range(model.neq):
        ctx.close("rhs1d:residual", np.max(np.abs(r[i])) * dxmin / fs[i] , TOL + 1e3 * np.finfo(float).eps * _cond_rhs(cond), "rhs1d/uniform-not-fixed/" + desc["model"] + "/" + kind.split("(")[0],
                  {"eq": i, "residual": r[i], "cond": cond}, cls="rhs1d")
    ctx.info.setdefault("bc_kinds", {}).setdefault(kind, 0)
    ctx.info["bc_kinds"][kind] += 1
    ctx.nontrivial(desc)


def _section(rng, L, mesh=None):
    """'any section law': smooth laws, and laws that are positive in every cell but VANISH exactly at a mesh face (wedge, closing
    duct, pinched throat), jump (step) or are tiny/huge"""
    kinds = ["poly", "gauss", "exp", "linear"]
    if mesh is not None:
        kinds += ["wedge", "closing", "pinch", "cusp", "step", "scaled"]
    k = str(rng.choice(kinds))
    a, b = float(np.round(rng.uniform(0.2, 2), 3)), float(np.round(rng.uniform(0.1, 0.9), 3))
    if k in ("wedge", "closing", "pinch", "cusp", "step"):
        xf = np.asarray(mesh.xf, float)
        xk = float(xf[int(rng.integers(1, mesh.ncell))]) if mesh.ncell > 1 else float(xf[0])      # an interior face
    if k == "wedge":
        x0 = float(np.asarray(mesh.xf)[0])
        f = lambda x: a * (x - x0) / L                    # exactly 0 at the first face
    elif k == "closing":
        x1 = float(np.asarray(mesh.xf)[-1])
        f = lambda x: a * (x1 - x) / L                    # exactly 0 at the last face
    elif k == "pinch":
        f = lambda x: a * np.abs(x - xk) / L              # exactly 0 at an interior face
    elif k == "cusp":
        f = lambda x: a * ((x - xk) / L) ** 2
    elif k == "step":
        f = lambda x: np.where(x < xk, a, a * (1 + b)) + 0.0 * x
    elif k == "scaled":
        sc = float(10 ** rng.uniform(-8, 8))
        f = lambda x: sc * a * (1.0 + b * (2 * x / L - 1) ** 2)
    elif k == "poly":
        f = lambda x: a * (1.0 + b * (2 * x / L - 1) ** 2)
    elif k == "gauss":
        f = lambda x: a * (1.0 - b * np.exp(-((x - 0.4 * L) / (0.2 * L)) ** 2))
    elif k == "exp":
        f = lambda x: a * np.exp(b * x / L)
    else:
        f = lambda x: a * (1.0 + b * x / L)
    f.desc = "%s(a=%g,b=%g)" % (k, a, b)
    return f


@group(quick=300, thorough=10000)
def nozzle_rest(ctx, rng, idx):
    """nozzle at rest, random section law, every mesh/reconstruction/flux; rhs and a short solve"""
    mesh, mdesc = gen.mesh1d(rng, nmin=3, nmax=16, x0=False)
    sec = _section(rng, mesh.length, mesh)
    gam = float(rng.choice([1.4, 5 / 3, 1.2]))
    model = euler.nozzle(sec, gamma=gam)
    rho, p = float(10 ** rng.uniform(-2, 2)), float(10 ** rng.uniform(-2, 2))
    n = mesh.ncell
    num, rname = gen.any_recon(rng)
    flux = gen.FLUXES["nozzle"][int(rng.integers(len(gen.FLUXES["nozzle"])))]
    bkind = str(rng.choice(["sym", "inout", "dirichlet"]))
    if bkind == "sym":
        bcL = bcR = {"type": "sym"}
    elif bkind == "dirichlet":
        bcL = bcR = {"type": "dirichlet", "prim": [rho, 0.0, p]}
    else:
        bcL = {"type": str(rng.choice(["insub", "insub_cbc"])), "ptot": p, "rttot": p / rho}
        bcR = {"type": str(rng.choice(["outsub", "outsub_qtot", "outsub_nrcbc", "outsub_rh"])), "p": p}
    disc = md.fvm(model, mesh, num, numflux=flux, bcL=bcL, bcR=bcR)
    f = gen.fdata_prim(model, mesh, [np.full(n, rho), np.zeros(n), np.full(n, p)])
    iname = gen.ALL_INTEG[idx % len(gen.ALL_INTEG)]
    ctx.describe(model="nozzle", section=sec.desc, gamma=gam, mesh=mdesc, recon=rname, flux=flux, bcL=bcL, bcR=bcR, state=[rho, 0.0, p], integrator=iname)
    c = np.sqrt(gam * p / rho)
    fs = [rho * c, rho * c * c, rho * c ** 3]; qs = [rho, rho * c, rho * c * c]
    r = disc.rhs(f)
    dxmin = float(np.min(mesh.vol()))
    for i in range(3):
        ctx.close("nozzle:residual", np.max(np.abs(r[i])) * dxmin / fs[i], TOL, "nozzle-rest/rhs-not-zero", {"eq": i}, cls="nozzle-rest")
    # at rest a pressure-extrapolating total-pressure condition turns a round-off perturbation of p into a velocity of sqrt(round-off):
    # M = 0 is the extreme case of finding D21 (judged as in solve1d: known mechanism only for those closures)
    nstep = int(rng.integers(1, 4))

    def solve(f0):
        return gen.integ(iname)(mesh, disc).solve(f0, 0.5, stop={"maxit": nstep})[-1]
    known = None
    if bkind == "inout" and (bcL["type"] in UNSTABLE_CLOSURES or bcR["type"] in UNSTABLE_CLOSURES):
        known = "solve1d/unstable-fixed-point/pressure-extrapolating-total-pressure-closure/" + ("explicit" if iname in gen.EXPLICIT else "implicit-fd-jacobian-below-mach-1e-3")
    _judge_drift(ctx, "nozzle-rest:solve", rng, solve, f, solve(f), qs, nstep * gen.NSTAGE.get(iname, 1), 1.0,
                 "nozzle-rest/solve-drifts/" + ("implicit" if iname in gen.IMPLICIT else "explicit"), known, {"integrator": iname, "nstep": nstep, "mach": 0.0})
    ctx.nontrivial("nozzle", sec.desc, mdesc, rname, flux, iname)


@group(quick=600, thorough=20000)
def solve1d(ctx, rng, idx):
    iname = gen.ALL_INTEG[idx % len(gen.ALL_INTEG)]
    model, mesh, disc, f, desc, fs, qs, cond, kind = _uniform_scn(rng)
    if iname in gen.IMPLICIT and mesh.ncell > 12:
        mesh.ncell  # keep: dense Jacobians stay small because nmax=20
    dtlocal = bool(rng.random() < 0.4)
    cfl = float(rng.uniform(0.05, 0.9 if iname in gen.EXPLICIT else 3.0))
    nstep = int(rng.integers(1, 8))
    if desc.get("ill_posed_boundary_pair"):
        nstep = 1
    if not np.isfinite(cond):
        cond = 1.0          # exactly at rest the first evaluation is exact (ptot/p == 1 gives M = 0); M = 0 is the branch point of the total-pressure
        #                     inversion: later steps see sqrt(round-off) velocities at the boundary -- the extreme case of finding D21, judged the same way
    ctx.describe(integrator=iname, cfl=cfl, nstep=nstep, dtlocal=dtlocal, **desc)
    dirs = {"dtlocal": True} if dtlocal else {}

    def solve(f0):
        return gen.integ(iname)(mesh, disc).solve(f0, cfl, stop={"maxit": nstep}, directives=dict(dirs))[-1]
    fe = solve(f)
    types = kind.replace("(reversed)", "").split("-")
    known = None
    mach = float(desc["state"][1] / np.sqrt(model.gamma * desc["state"][2] / desc["state"][0])) if len(desc["state"]) == 3 else None
    if any(t in UNSTABLE_CLOSURES for t in types):
        if iname in gen.EXPLICIT and abs(mach) < 0.5 * cfl:
            known = "solve1d/unstable-fixed-point/pressure-extrapolating-total-pressure-closure/explicit"
        elif abs(mach) <= 1e-3:
            # implicit integrators: the closure's velocity ~ sqrt(ptot - p) cannot be differenced with a relative step sqrt(eps) once
            # M^2 is within a factor 100 of that step (the difference crosses the branch point M = 0)
            known = "solve1d/unstable-fixed-point/pressure-extrapolating-total-pressure-closure/implicit-fd-jacobian-below-mach-1e-3"
    # (every stage of a multi-stage integrator is one more pass through the boundary condition)
    _judge_drift(ctx, "solve1d:drift", rng, solve, f, fe, qs, nstep * gen.NSTAGE.get(iname, 1), cond,
                 "solve1d/uniform-drifts/%s/%s" % ("implicit" if iname in gen.IMPLICIT else "explicit", desc["model"]), known,
                 {"integrator": iname, "cfl": cfl, "nstep": nstep, "mach": mach})
    if kind == "per" and iname in gen.EXPLICIT and not dtlocal:
        # all face fluxes of a uniform periodic state are the same number: the residual is exactly zero and the state bit-identical
        ctx.true("solve1d:bitwise-per", all(np.array_equal(a, b) for a, b in zip(fe.data, f.data)), "solve1d/periodic-explicit-not-bit-identical/" + desc["model"],
                 {"max change": max(np.max(np.abs(a - b)) for a, b in zip(fe.data, f.data)), "integrator": iname}, cls="solve1d")
    ctx.info.setdefault("integrators", {}).setdefault(iname, 0)
    ctx.info["integrators"][iname] += 1
    ctx.nontrivial("solve", iname, cfl, nstep, dtlocal, desc)


# ------------------------------------------------------------------------------------------ 2D
def _scn2d(rng):
    m, mdesc = gen.mesh2d(rng, nmax=6)
    gam = float(rng.choice([1.4, 5 / 3, 1.2]))
    model = euler.euler2d(gamma=gam)
    rho, p = float(10 ** rng.uniform(-2, 2)), float(10 ** rng.uniform(-2, 2))
    c = np.sqrt(gam * p / rho)
    mach = float(rng.choice(MACHS[1:] + [float(np.round(rng.uniform(0.02, 3), 3))]))
    kind = str(rng.choice(["per", "dirichlet", "sup-angle", "sub-normal"]))
    cond = 1.0
    if kind == "sub-normal":
        # boundary-normal subsonic flow: insub upstream, outsub downstream, sym/per on the other pair
        mach = float(rng.choice([0.02, 0.1, 0.3, 0.6, 0.9]))
        axis = int(rng.integers(2)); sgn = int(rng.choice([-1, 1]))
        V = np.zeros(2); V[axis] = sgn * mach * c
        pt, rtt = refs.totals(rho, mach * c, p, gam)
        inl = {"type": "insub", "ptot": float(pt), "rttot": float(rtt)}
        out = {"type": "outsub", "p": p}
        other = {"type": str(rng.choice(["sym", "per"]))}
        pair = ("left", "right") if axis == 0 else ("bottom", "top")
        opair = ("bottom", "top") if axis == 0 else ("left", "right")
        bcl = {pair[0]: inl if sgn > 0 else out, pair[1]: out if sgn > 0 else inl, opair[0]: other, opair[1]: dict(other)}
        cond = 1.0 + 1.0 / mach ** 2
    else:
        ang = float(rng.choice([0.0, 90.0, 180.0, -90.0, 45.0, np.round(rng.uniform(-180, 180), 1)]))
        V = mach * c * np.array([np.cos(np.deg2rad(ang)), np.sin(np.deg2rad(ang))])
        if kind == "per":
            bcl = {t: {"type": "per"} for t in ("left", "right", "bottom", "top")}
        elif kind == "dirichlet":
            bcl = {}
            for t in ("left", "right", "bottom", "top"):
                nf = m.ny if t in ("left", "right") else m.nx
                bcl[t] = {"type": "dirichlet", "prim": [np.full(nf, rho), np.vstack([np.full(nf, V[0]), np.full(nf, V[1])]), np.full(nf, p)]}
        else:
            pt, rtt = refs.totals(rho, mach * c, p, gam)
            bcl = {}
            nout = {"left": (-1, 0), "right": (1, 0), "bottom": (0, -1), "top": (0, 1)}
            for t, nv in nout.items():
                vn = V[0] * nv[0] + V[1] * nv[1]
                if abs(vn) < 1e-9 * mach * c:
                    # flow exactly tangential to this side: a wall, or the same supersonic inlet / outlet conditions as on the other sides
                    # (their imposed / copied state is the uniform state itself, whatever the side)
                    bcl[t] = [{"type": "sym"}, {"type": "insup", "ptot": float(pt), "rttot": float(rtt), "p": p, "angle": ang}, {"type": "outsup"}][int(rng.integers(3))]
                    V[1 if nv[0] == 0 else 0] = 0.0          # exactly tangential
                elif vn < 0:
                    bcl[t] = {"type": "insup", "ptot": float(pt), "rttot": float(rtt), "p": p, "angle": ang}
                else:
                    bcl[t] = {"type": "outsup"}
            cond = 1.0 + 1.0 / mach ** 2
    k = float(rng.choice([-1.0, 0.0, 1.0 / 3.0, 0.5, 1.0, np.round(rng.uniform(-1, 1), 3)]))
    num, rname = (xnum.extrapol2d1(), "extrapol2d1") if rng.random() < 0.4 else (xnum.extrapol2dk(k), "extrapol2dk(%g)" % k)
    flux = str(rng.choice(["centered", "hlle"]))
    disc = md.fvm2d(model, m, num, bclist=bcl, numflux=flux)
    n = m.ncell
    prim = [np.full(n, rho), np.vstack([np.full(n, V[0]), np.full(n, V[1])]), np.full(n, p)]
    how = str(rng.choice(["arrays", "fdata_fromprim(scalars)", "fdata_fromprim(arrays)"]))
    if how == "arrays":
        f = ffield.fdata(model, m, model.prim2cons(prim))
    elif how == "fdata_fromprim(scalars)":       # the way a user writes a uniform state: [rho, [u, v], p]
        f = disc.fdata_fromprim([rho, [float(V[0]), float(V[1])], p])
    else:
        f = disc.fdata_fromprim(prim)
    s = mach * c + c
    desc = {"field_built_by": how, "model": "euler2d", "gamma": gam, "mesh": mdesc, "recon": rname, "flux": flux, "kind": kind, "state": [rho, V, p],
            "bc": {t: {kk: vv for kk, vv in d.items() if kk != "prim"} for t, d in bcl.items()}}
    return m, model, disc, f, desc, [rho * s, rho * s * s, rho * s ** 3], [rho, rho * s, rho * s * s], cond


@group(quick=500, thorough=20000)
def rhs2d(ctx, rng, idx):
    m, model, disc, f, desc, fs, qs, cond = _scn2d(rng)
    ctx.describe(**desc)
    r = disc.rhs(f)
    dmin = min(m.dx(), m.dy())
    for i in range(3):
        ctx.close("rhs2d:residual", np.max(np.abs(r[i])) * dmin / fs[i] , TOL + 1e3 * np.finfo(float).eps * _cond_rhs(cond), "rhs2d/uniform-not-fixed/" + desc["kind"], {"eq": i, "cond": cond}, cls="rhs2d")
    ctx.info.setdefault("kinds2d", {}).setdefault(desc["kind"], 0)
    ctx.info["kinds2d"][desc["kind"]] += 1
    ctx.nontrivial(desc)


@group(quick=100, thorough=3000)
def solve2d(ctx, rng, idx):
    iname = (gen.EXPLICIT + ["implicit", "cranknicolson", "gear"])[idx % (len(gen.EXPLICIT) + 3)]
    m, model, disc, f, desc, fs, qs, cond = _scn2d(rng)
    dtlocal = bool(rng.random() < 0.3)
    nstep = int(rng.integers(1, 5))
    cfl = float(rng.uniform(0.05, 0.5))
    ctx.describe(integrator=iname, cfl=cfl, nstep=nstep, dtlocal=dtlocal, **desc)

    def solve(f0):
        return gen.integ(iname)(m, disc).solve(f0, cfl, stop={"maxit": nstep}, directives={"dtlocal": True} if dtlocal else {})[-1]
    try:
        fe = solve(f)
    except (ValueError, IndexError) as e:
        if iname in gen.IMPLICIT:
            ctx.ev("solve2d")
            ctx.fail("solve2d/implicit-integrators-reject-vector-valued-fields", "%s: %s" % (type(e).__name__, e))
            return
        raise
    known = "solve2d/unstable-fixed-point/pressure-extrapolating-total-pressure-closure/explicit" if (desc["kind"] == "sub-normal" and iname in gen.EXPLICIT) else None
    _judge_drift(ctx, "solve2d:drift", rng, solve, f, fe, qs, nstep * gen.NSTAGE.get(iname, 1), cond, "solve2d/uniform-drifts/" + desc["kind"], known,
                 {"integrator": iname, "cfl": cfl, "nstep": nstep, "mach": 1.0 / np.sqrt(cond - 1.0) if cond > 1.0 else None})
    ctx.nontrivial("solve2d", iname, cfl, nstep, desc)


@group(quick=200, thorough=6000)
def mirror_pairs(ctx, rng, idx):
    """a uniform state with matching inlet/outlet conditions AND, in the same process, its mirror image (velocity negated, conditions
    exchanged, the SAME parameter values): both are fixed points, in either order"""
    mname = ["euler1d", "nozzle"][idx % 2]
    gam = float(rng.choice([1.4, 5 / 3, 1.2]))
    rho, p = float(10 ** rng.uniform(-2, 2)), float(10 ** rng.uniform(-2, 2))
    mach = float(rng.choice([0.3, 0.8, 1.5, 2.5]))
    c = np.sqrt(gam * p / rho)
    pt, rtt = refs.totals(rho, mach * c, p, gam)
    inl = {"type": str(rng.choice(["insup", "insub", "insub_cbc"] if mach < 1 else ["insup"])), "ptot": float(pt), "rttot": float(rtt), "p": float(p)}
    out = {"type": str(rng.choice(OUTLETS)), "p": float(p)}
    order = [1, -1] if rng.random() < 0.5 else [-1, 1]
    ctx.describe(model=mname, gamma=gam, state=[rho, mach * c, p], inlet=inl, outlet=out, order=order)
    cond = 1.0 + 1.0 / mach ** 2 if inl["type"] in ("insub", "insub_cbc") or out["type"] == "outsub_qtot" else 1.0
    for sgn in order:
        model, _ = gen.make_model(mname, rng, gamma=gam)
        mesh, mdesc = gen.mesh1d(rng, nmin=3, nmax=12)
        num, rname = gen.any_recon(rng)
        flux = gen.FLUXES[mname][int(rng.integers(len(gen.FLUXES[mname])))]
        bcL, bcR = (dict(inl), dict(out)) if sgn > 0 else (dict(out), dict(inl))
        disc = md.fvm(model, mesh, num, numflux=flux, bcL=bcL, bcR=bcR)
        n = mesh.ncell
        f = gen.fdata_prim(model, mesh, [np.full(n, rho), np.full(n, sgn * mach * c), np.full(n, p)])
        r = disc.rhs(f)
        s_ = mach * c + c
        fs = [rho * s_, rho * s_ * s_, rho * s_ ** 3]
        dxmin = float(np.min(mesh.vol()))
        for i in range(3):
            ctx.close("mirror-pair:residual", np.max(np.abs(r[i])) * dxmin / fs[i] , TOL + 1e3 * np.finfo(float).eps * _cond_rhs(cond), "mirror-pair/uniform-not-fixed/%s-%s/%s" % (inl["type"], out["type"], "first" if sgn == order[0] else "second-configuration"),
                      {"eq": i, "flow direction": sgn, "recon": rname, "flux": flux}, cls="mirror-pair")
    ctx.nontrivial("mirror", mname, gam, rho, p, mach, inl["type"], out["type"], order)
