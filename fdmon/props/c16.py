"""C16 boundary states meet their definitions.  Always-on monitor on every namedBC dispatch + inverse-construction cases."""
import numpy as np

import flowdyn.modelphy.base as mbase
import flowdyn.modelphy.euler as euler
import flowdyn.modelphy.shallowwater as shw
import flowdyn.modelphy.convection as conv
import flowdyn.modelphy.burgers as burgers

from .. import core, gen, probes, refs
from ..core import group
from . import c01, c15

CTX = None
TOL = 1e-10      # measured worst ~1e-14


def _arr(x):
    return np.atleast_1d(np.asarray(x, dtype=float))


def _chk(ctx, name, what, got, exp, scale, key, mask=None, extra=None):
    got, exp, scale = np.broadcast_arrays(_arr(got), _arr(exp), _arr(scale))
    ok = np.isfinite(exp) & np.isfinite(scale) & (scale > 0)
    if mask is not None:
        ok = ok & np.broadcast_to(mask, ok.shape)
    if not np.any(ok):
        CTX.skip("bc:%s:%s:outside-regime" % (name, what))
        return
    err = np.abs(got[ok] - exp[ok]) / scale[ok]
    err = np.where(np.isnan(err), np.inf, err)
    j = int(np.argmax(err))
    ctx.close("%s:%s" % (name, what), err[j], TOL, "%s/%s" % (name, key), {"got": got[ok][j], "expected": exp[ok][j], **(extra or {})}, cls=name)


def mon_bc(args, kwargs, result, tok):
    ctx = CTX
    if not probes.take("namedBC"):
        ctx.skip("namedBC:not-sampled")
        return
    model, name, dirv, data, param = args[0], args[1], args[2], args[3], args[4]
    eqn = model.equation
    if name == "dirichlet":
        ok = len(result) == len(param["prim"]) and all(np.array_equal(np.asarray(r, float), np.asarray(p, float)) for r, p in zip(result, param["prim"]))
        ctx.true("dirichlet", ok, "dirichlet/not-the-imposed-state", {"model": eqn}, cls="dirichlet:" + eqn)
        return
    if eqn == "shallowwater":
        h0, u0 = _arr(data[0]), _arr(data[1]); h1, u1 = _arr(result[0]), _arr(result[1])
        if name == "sym":
            ctx.true("sw-sym", np.array_equal(h1, h0) and np.array_equal(u1, -u0), "sw-sym/not-mirror-state", None, cls="sw-sym")
            with probes.quiet():
                for fl in ("centered", "rusanov", "hll"):
                    L, R = ([h0, u0], [h1, u1]) if dirv > 0 else ([h1, u1], [h0, u0])
                    F = model.numflux(fl, L, R)
                    sc = h0 * (np.abs(u0) + np.sqrt(model.g * h0)) + 1e-300
                    _chk(ctx, "sw-sym", "wall-mass-flux", F[0], 0 * h0, sc, "mass-crosses-wall/" + fl, mask=h0 > 0)
        elif name == "inf":
            ctx.true("sw-inf", np.array_equal(h1, h0) and np.array_equal(u1, u0), "sw-inf/not-copied", None, cls="sw-inf")
        return
    if eqn != "euler":
        return
    g = model.gamma
    gm = g - 1.0
    two_d = np.ndim(data[1]) == 2
    r0, p0 = _arr(data[0]), _arr(data[2]); r1, p1 = _arr(result[0]), _arr(result[2])
    adm = (r0 > 0) & (p0 > 0) & np.isfinite(r0 + p0)
    r1, p1 = np.broadcast_to(r1, r0.shape), np.broadcast_to(p1, r0.shape)       # imposed states may come back as scalars
    if two_d:
        nrm = np.asarray(dirv, float)
        V0 = np.asarray(data[1], float); V1 = np.broadcast_to(np.asarray(result[1], float), V0.shape)
        un0, un1 = V0[0] * nrm[0] + V0[1] * nrm[1], V1[0] * nrm[0] + V1[1] * nrm[1]
        ut0, ut1 = -V0[0] * nrm[1] + V0[1] * nrm[0], -V1[0] * nrm[1] + V1[1] * nrm[0]
        q0, q1 = np.sqrt(V0[0] ** 2 + V0[1] ** 2), np.sqrt(V1[0] ** 2 + V1[1] ** 2)
        nm = "2d-" + name
    else:
        d = float(dirv)
        un0, un1 = d * _arr(data[1]), np.broadcast_to(d * _arr(result[1]), r0.shape)       # outward normal velocity
        ut0 = ut1 = 0.0 * un0
        q0, q1 = np.abs(un0), np.abs(un1)
        nm = name
    c0 = np.sqrt(g * np.abs(p0 / r0)); c1 = np.sqrt(g * np.abs(p1 / r1))
    pt0, rtt0 = refs.totals(r0, q0, p0, g); pt1, rtt1 = refs.totals(r1, q1, p1, g)
    ex = {"gamma": g, "dir": dirv if not two_d else "2d"}
    if name == "sym":
        ctx.true(nm, np.array_equal(r1, r0) and np.array_equal(p1, p0), nm + "/thermodynamic-state-not-copied", None, cls=nm)
        # the reversal is an exact operation on the normal component (axis-aligned normals): judged relative to that component ITSELF,
        # so that a nearly-at-rest state (acoustics: |u| ~ 1e-9 c) is held to the same standard as a fast one
        _chk(ctx, nm, "normal-velocity", un1, -un0, np.abs(un0) + 1e-300, "normal-velocity-not-reversed", adm, ex)
        _chk(ctx, nm, "tangential-velocity", ut1, ut0, np.abs(ut0) + 1e-300, "tangential-velocity-changed", adm, ex)
        with probes.quiet():       # no mass / energy crosses the wall, through the real flux functions
            for fl in (("centered", "hlle") if two_d else ("centered", "centeredmassflow", "hlle", "hllc")):
                if two_d:
                    # faces are oriented along +x/+y: the boundary state is on the right for outward normals (dir = +axis)
                    outward = (nrm[0] + nrm[1]) > 0
                    L = [np.where(outward, r0, r1), np.where(outward, V0, V1), np.where(outward, p0, p1)]
                    R = [np.where(outward, r1, r0), np.where(outward, V1, V0), np.where(outward, p1, p0)]
                    F = model.numflux(fl, L, R, np.abs(nrm).astype(np.int8))
                else:
                    u0s, u1s = _arr(data[1]), _arr(result[1])
                    L, R = ([r0, u0s, p0], [r1, u1s, p1]) if d > 0 else ([r1, u1s, p1], [r0, u0s, p0])
                    F = model.numflux(fl, L, R)
                _chk(ctx, nm, "wall-mass-flux", F[0], 0 * r0, r0 * (q0 + c0) + 1e-300, "mass-crosses-wall/" + fl, adm, ex)
                _chk(ctx, nm, "wall-energy-flux", F[2], 0 * r0, r0 * (q0 + c0) ** 3 + 1e-300, "energy-crosses-wall/" + fl, adm, ex)
        return
    if name in ("insub", "insub_cbc", "insup"):
        ptot, rttot = float(param["ptot"]), float(param["rttot"])
        if name == "insub":
            reg = adm & (p0 <= ptot)
            _chk(ctx, nm, "pressure", p1, p0, p0, "interior-pressure-not-kept", reg, ex)
        elif name == "insup":
            reg = adm & (float(param["p"]) <= ptot)
            _chk(ctx, nm, "pressure", p1, 0 * p0 + float(param["p"]), 0 * p0 + float(param["p"]), "imposed-pressure-not-met", reg, ex)
        else:
            reg = adm & np.isfinite(r1 + p1 + un1) & (r1 > 0) & (p1 > 0)
            # regime of the condition: an INFLOW state on the outgoing characteristic exists only while the invariant carried
            # from the interior does not exceed that of the reservoir at rest, u_n + 2c/(g-1) <= 2 sqrt(g r Ttot)/(g-1)
            inflow_regime = (un0 + 2 * c0 / gm) <= 2 * np.sqrt(g * rttot) / gm * (1 - 1e-9)
            # ... and a state with a POSITIVE sound speed lies on that characteristic only while the inflow carried from the interior is
            # not faster than the relations allow: c1 = (g-1)/(g+1) (J + sqrt(g(g+1)/(g-1) rTt - (g-1)/2 J^2)) > 0, J = u_n + 2c/(g-1)
            Jn = un0 + 2 * c0 / gm
            with np.errstate(all="ignore"):
                reg = reg & (Jn + np.sqrt(np.maximum(g * (g + 1) / gm * rttot - 0.5 * gm * Jn ** 2, 0.0)) > 1e-9 * (np.abs(Jn) + c0))
            # outgoing characteristic (towards the boundary) carries u_n + 2c/(gamma-1) in outward-normal terms
            _chk(ctx, nm, "riemann-invariant", un1 + 2 * c1 / gm, un0 + 2 * c0 / gm, np.abs(un0) + c0, "outgoing-invariant-not-kept", reg, ex)
        _chk(ctx, nm, "ptot", pt1, 0 * p0 + ptot, 0 * p0 + ptot, "total-pressure-not-imposed", reg, ex)
        _chk(ctx, nm, "rttot", rtt1, 0 * p0 + rttot, 0 * p0 + rttot, "total-temperature-not-imposed", reg, ex)
        if two_d and name == "insup" and "angle" in param:
            ang = np.deg2rad(param["angle"])
            _chk(ctx, nm, "direction", V1[0] * np.sin(ang) - V1[1] * np.cos(ang), 0 * p0, q1 + c1, "flow-direction-not-the-imposed-angle", reg, ex)
            _chk(ctx, nm, "direction", V1[0] * np.cos(ang) + V1[1] * np.sin(ang), q1, q1 + c1, "flow-direction-opposite-to-the-imposed-angle", reg, ex)
        else:
            if two_d:
                _chk(ctx, nm, "tangential", ut1, 0 * p0, q1 + c1, "inflow-not-normal-to-boundary", reg, ex)
            rin = reg & inflow_regime if name == "insub_cbc" else reg
            if np.any(rin):
                okin = un1[rin] <= 1e-12 * (q1[rin] + c1[rin])
                ctx.true(nm + ":inflow", np.all(okin), nm + "/flow-not-into-domain", {"outward normal velocity": un1[rin][~okin][:3], **ex}, cls=nm)
        return
    if name in ("outsub", "outsub_prim"):
        ctx.true(nm, np.array_equal(r1, r0) and np.array_equal(_arr(np.asarray(result[1], float)), _arr(np.asarray(data[1], float))), nm + "/density-velocity-not-copied", None, cls=nm)
        _chk(ctx, nm, "pressure", p1, 0 * p0 + float(param["p"]), 0 * p0 + float(param["p"]), "pressure-not-imposed", adm, ex)
        return
    if name == "outsup":
        ctx.true(nm, all(np.array_equal(np.asarray(a, float), np.asarray(b, float)) for a, b in zip(result, data)), nm + "/not-copied", None, cls=nm)
        return
    pp = float(param["p"])
    if name == "outsub_qtot":
        reg = adm & (pt0 >= pp)
        _chk(ctx, nm, "pressure", p1, 0 * p0 + pp, 0 * p0 + pp, "pressure-not-imposed", reg, ex)
        _chk(ctx, nm, "ptot", pt1, pt0, pt0, "total-pressure-not-kept", reg, ex)
        _chk(ctx, nm, "rttot", rtt1, rtt0, rtt0, "total-temperature-not-kept", reg, ex)
        okout = un1[reg] >= -1e-12 * (q1[reg] + c1[reg]) if np.any(reg) else np.array([True])
        ctx.true(nm + ":outflow", np.all(okout), nm + "/flow-not-out-of-domain", ex, cls=nm)
    elif name == "outsub_nrcbc":
        _chk(ctx, nm, "pressure", p1, 0 * p0 + pp, 0 * p0 + pp, "pressure-not-imposed", adm, ex)
        _chk(ctx, nm, "entropy", p1 / r1 ** g, p0 / r0 ** g, p0 / r0 ** g, "entropy-not-kept", adm, ex)
        # invariant constant across the outgoing acoustic wave: u_n - 2c/(gamma-1) (outward-normal terms)
        _chk(ctx, nm, "riemann-invariant", un1 - 2 * c1 / gm, un0 - 2 * c0 / gm, np.abs(un0) + c0 + c1, "invariant-across-outgoing-wave-not-kept", adm, ex)
    elif name == "outsub_rh":
        _chk(ctx, nm, "pressure", p1, 0 * p0 + pp, 0 * p0 + pp, "pressure-not-imposed", adm, ex)
        reg = adm & (np.abs(r1 - r0) > 1e-6 * r0) & np.isfinite(r1 + un1) & (r1 > 0)
        with np.errstate(all="ignore"):
            ws = (r1 * un1 - r0 * un0) / (r1 - r0)           # shock speed from mass conservation
            w0, w1 = un0 - ws, un1 - ws
            h0 = g / gm * p0 / r0; h1 = g / gm * p1 / r1
        cond = 1.0 / np.maximum(np.abs(r1 - r0) / r0, 1e-6)       # conditioning of the shock-speed estimate
        _chk(ctx, nm, "rh-momentum", p1 + r1 * w1 ** 2, p0 + r0 * w0 ** 2, (p0 + r0 * w0 ** 2) * cond, "rankine-hugoniot-momentum", reg, ex)
        _chk(ctx, nm, "rh-energy", h1 + 0.5 * w1 ** 2, h0 + 0.5 * w0 ** 2, (h0 + 0.5 * w0 ** 2) * cond, "rankine-hugoniot-energy", reg, ex)


def install(ctx):
    global CTX
    CTX = ctx
    probes.hook(mbase.model, "namedBC", after=mon_bc)


def setup(ctx):
    install(ctx)
    names = ["sym", "insub", "insub_cbc", "insup", "outsub", "outsub_prim", "outsub_qtot", "outsub_nrcbc", "outsub_rh", "outsup",
             "2d-sym", "2d-insub", "2d-insup", "2d-outsub", "2d-outsup", "sw-sym", "sw-inf",
             "dirichlet:euler", "dirichlet:shallowwater", "dirichlet:convection", "dirichlet:burgers", "inverse:1d", "inverse:2d", "history", "integer-inputs"]
    ctx.require(*names)


def teardown(ctx):
    for e in probes.errors():
        ctx.harness_error(e)


# ------------------------------------------------------------------------------------------ generated calls
def _states(rng, n, gam, mach_lo=0.02, mach_hi=5.0):
    rho = 10 ** rng.uniform(-3, 3, n); p = 10 ** rng.uniform(-3, 3, n)
    m = rng.uniform(mach_lo, mach_hi, n) * np.where(rng.random(n) < 0.6, 0.2, 1.0)
    return rho, np.maximum(m, mach_lo), p


@group(quick=600, thorough=20000)
def inverse1d(ctx, rng, idx):
    """choose the boundary state first, derive parameters and compatible interior states: the condition must return it"""
    gam = float(rng.choice([1.4, 5 / 3, 1.2, 2.0, np.round(rng.uniform(1.05, 2.0), 3)]))
    gm = gam - 1
    model = euler.euler1d(gamma=gam)
    gen.maybe_decoy(rng)
    d = int(rng.choice([-1, 1]))
    name = ["insub", "insub_cbc", "insup", "outsub", "outsub_qtot", "outsub_nrcbc", "outsub_rh", "outsup", "sym", "outsub_prim"][idx % 10]
    n = 64
    rb, mb, pb = _states(rng, n, gam)
    if name in ("insub", "insub_cbc", "outsub_qtot", "outsub", "outsub_prim", "sym") and rng.random() < 0.25:
        mb = mb * 10 ** rng.uniform(-6, -1, n)          # slow flows too (Mach 1e-8...1e-1): creeping inlets and outlets
    cb = np.sqrt(gam * pb / rb)
    j = int(rng.integers(n))
    # boundary state (index j is the reference from which scalar parameters are taken)
    if name in ("insub", "insub_cbc", "insup"):
        ub = -d * mb * cb                       # into the domain
        if name != "insup":
            ub = -d * np.minimum(mb, 0.95) * cb
        pt, rtt = refs.totals(rb, ub, pb, gam)
        par = {"type": name, "ptot": float(pt[j]), "rttot": float(rtt[j]), "p": float(pb[j])}
        # all boundary states share the total conditions of state j: rebuild them from a Mach number
        m = np.abs(ub) / cb
        f = 1 + 0.5 * gm * m * m
        pb = par["ptot"] / f ** (gam / gm); rb = pb * f / par["rttot"]; cb = np.sqrt(gam * pb / rb); ub = -d * m * cb
        if name == "insub":
            ri = rb * rng.uniform(0.5, 2, n); ui = rng.uniform(-1, 1, n) * cb; pi = pb.copy()       # interior shares the pressure
        elif name == "insup":
            pb = np.full(n, par["p"]); m = np.sqrt(np.maximum((par["ptot"] / par["p"]) ** (gm / gam) - 1, 0) * 2 / gm)
            rb = par["ptot"] / par["rttot"] / (1 + 0.5 * gm * m * m) ** (1 / gm) * np.ones(n); cb = np.sqrt(gam * pb / rb); ub = -d * m * cb
            ri, ui, pi = rb * rng.uniform(0.5, 2, n), rng.uniform(-2, 2, n) * cb, pb * rng.uniform(0.5, 2, n)
        else:
            # interior on the same outgoing characteristic: u + d*2c/(g-1) equal to the boundary value
            inv = ub + d * 2 * cb / gm
            ci = cb * rng.uniform(0.7, 1.3, n)
            ui = inv - d * 2 * ci / gm
            ri = rb * rng.uniform(0.5, 2, n); pi = ri * ci * ci / gam
        exp = [rb, ub, pb]
    else:
        ri, mi, pi = _states(rng, n, gam)
        ci = np.sqrt(gam * pi / ri)
        ui = d * np.minimum(mi, 0.95 if name != "outsup" else 5.0) * ci * (1 if name != "sym" else rng.choice([-1, 1]))
        if name in ("sym", "outsup", "outsub", "outsub_prim") and rng.random() < 0.3:
            ui = ui * float(10 ** rng.uniform(-14, -4))        # nearly at rest everywhere (acoustic amplitudes)
        pe = float(pi[j] * rng.uniform(0.5, 1.0))
        par = {"type": name, "p": pe}
        if name in ("outsub", "outsub_prim"):
            exp = [ri, ui, np.full(n, pe)]
        elif name == "outsup":
            exp = [ri, ui, pi]
        elif name == "sym":
            exp = [ri, -ui, pi]
        elif name == "outsub_qtot":
            pt, rtt = refs.totals(ri, ui, pi, gam)
            m = np.sqrt(np.maximum((pt / pe) ** (gm / gam) - 1, 0) * 2 / gm)
            re = pt / rtt / (1 + 0.5 * gm * m * m) ** (1 / gm)
            exp = [re, d * m * np.sqrt(gam * pe / re), np.full(n, pe)]
            exp = [np.where(pt >= pe, e, np.nan) for e in exp]
        elif name == "outsub_nrcbc":
            # the interior state is an outgoing simple wave issued from an ambient state at pressure pe: must map back to it
            re = ri * (pe / pi) ** (1 / gam)
            ue = ui + d * 2 / gm * (np.sqrt(gam * pe / re) - ci)
            exp = [re, ue, np.full(n, pe)]
        else:  # outsub_rh: exact shock relations for a shock of pressure ratio pe/pi moving into the interior state
            pr = pe / pi
            ms2 = 1 + (pr - 1) * (gam + 1) / (2 * gam)
            rr = (gam + 1) * ms2 / (2 + gm * ms2)
            ws = ui - d * ci * np.sqrt(ms2)
            exp = [ri * rr, ws + (ui - ws) / rr, np.full(n, pe)]
    ctx.describe(bc=name, dir=d, gamma=gam, params=par, interior=[ri[:4], ui[:4], pi[:4]], expected=[e[:4] for e in exp])
    got = model.namedBC(name, d, [ri.copy(), ui.copy(), pi.copy()], par)
    # elementwise: the boundary state of one face must not depend on which other faces are in the same call
    for sname, msk in {"first-one": np.arange(n) < 1, "random-half": rng.random(n) < 0.5, "slowest-quarter": np.abs(ui) <= np.quantile(np.abs(ui), 0.25),
                       "fastest-quarter": np.abs(ui) >= np.quantile(np.abs(ui), 0.75)}.items():
        if not np.any(msk):
            continue
        with probes.quiet():
            sub_ = model.namedBC(name, d, [ri[msk].copy(), ui[msk].copy(), pi[msk].copy()], dict(par))
        for i in range(3):
            a_, b_ = np.broadcast_to(_arr(sub_[i]), (int(msk.sum()),)), np.broadcast_to(_arr(got[i]), (n,))[msk]
            same = (a_ == b_) | (np.isnan(a_) & np.isnan(b_))
            ctx.true("bc-elementwise", bool(np.all(same)), "inverse1d/%s/state-depends-on-the-other-faces-of-the-call" % name, None if np.all(same) else {"subset": sname, "component": i}, cls="inverse:1d")
    # the same interior states one by one as python floats / numpy scalars (this is how fvm1d calls the conditions)
    for j in rng.integers(0, n, 4):
        for cast in (float, np.float64):
            gj = model.namedBC(name, d, [cast(ri[j]), cast(ui[j]), cast(pi[j])], par)
            for i in range(3):
                a_, b_ = float(np.asarray(gj[i]).ravel()[0]), float(np.broadcast_to(_arr(got[i]), (n,))[j])
                if np.isfinite(b_):
                    ctx.close("bc-scalar-call", abs(a_ - b_) / (abs(b_) + (np.sqrt(gam * pi[j] / ri[j]) if i == 1 else 0) + 1e-300), 1e-12, "inverse1d/%s/scalar-call-differs-from-array-call" % name, {"type": cast.__name__}, cls="inverse:1d")
    sc = [ri, np.abs(ui) + np.sqrt(gam * pi / ri), pi]
    for i, nm in enumerate(["density", "velocity", "pressure"]):
        e = np.asarray(exp[i], float)
        ok = np.isfinite(e)
        if not np.any(ok):
            continue
        s = np.maximum(np.abs(sc[i]), np.abs(e))[ok] if i != 1 else (np.abs(sc[1]) + np.abs(e))[ok]
        extra = 0.0
        if name in ("insub", "insub_cbc", "insup", "outsub_qtot") and i == 1:
            # total-pressure -> Mach number inversion: M^2 is recovered to round-off, the velocity (measured against |u|+c) to eps/M.
            # ADDED to the tolerance, not divided out of the error: dividing would hide a boundary state that carries no velocity at all
            mb_ = np.abs(np.asarray(exp[1], float)) / np.sqrt(gam * np.abs(np.asarray(exp[2], float) / np.asarray(exp[0], float)))
            extra = 1e3 * np.finfo(float).eps / np.maximum(mb_[ok], 1e-12)
        err = np.abs(np.broadcast_to(_arr(got[i]), e.shape)[ok] - e[ok]) / s - extra
        ctx.close("inverse:1d", np.max(err), 1e-9, "inverse1d/%s/%s-not-the-constructed-state" % (name, nm), {"dir": d, "gamma": gam}, cls="inverse:1d")
    ctx.nontrivial("inv1d", name, d, gam, ri[:3], ui[:3])


@group(quick=300, thorough=10000)
def inverse2d(ctx, rng, idx):
    gam = float(rng.choice([1.4, 5 / 3, 1.2]))
    gm = gam - 1
    model = euler.euler2d(gamma=gam)
    gen.maybe_decoy(rng)
    name = ["sym", "insub", "insup", "outsub", "outsup", "insup-angle"][idx % 6]
    n = 32
    side = int(rng.integers(4))
    nv = [(-1.0, 0.0), (1.0, 0.0), (0.0, -1.0), (0.0, 1.0)][side]
    nrm = np.vstack([np.full(n, nv[0]), np.full(n, nv[1])])
    ri, mi, pi = _states(rng, n, gam, mach_hi=3.0)
    ci = np.sqrt(gam * pi / ri)
    th = rng.uniform(0, 2 * np.pi, n)
    Vi = mi * ci * np.vstack([np.cos(th), np.sin(th)])
    if name in ("sym", "outsup", "outsub") and rng.random() < 0.3:
        Vi = Vi * float(10 ** rng.uniform(-14, -4))            # nearly at rest everywhere (acoustic amplitudes)
    j = int(rng.integers(n))
    par = {"type": name.split("-")[0]}
    if name == "sym":
        vn = Vi[0] * nrm[0] + Vi[1] * nrm[1]
        exp = [ri, Vi - 2 * vn * nrm, pi]
    elif name == "outsub":
        par["p"] = float(pi[j] * rng.uniform(0.5, 1.5)); exp = [ri, Vi, np.full(n, par["p"])]
    elif name == "outsup":
        exp = [ri, Vi, pi]
    else:
        mb = float(rng.uniform(0.05, 0.9) if name == "insub" else rng.uniform(0.05, 3.0))
        rb, pb = float(ri[j]), float(pi[j])
        pt, rtt = refs.totals(rb, mb * np.sqrt(gam * pb / rb), pb, gam)
        par.update(ptot=float(pt), rttot=float(rtt))
        if name == "insub":
            pi = np.full(n, pb)                    # interior pressure decides the boundary Mach number
            exp = [np.full(n, rb), -mb * np.sqrt(gam * pb / rb) * nrm, pi]
        else:
            par["p"] = pb
            if name == "insup-angle":
                ang = float(np.round(rng.uniform(-180, 180), 1)) if rng.random() < 0.6 else [0.0, 0, -0.0, 90.0, 90, 180.0, -90.0, -180.0, 270.0, 360.0][int(rng.integers(10))]; par["angle"] = ang
                dvec = np.vstack([np.full(n, np.cos(np.deg2rad(ang))), np.full(n, np.sin(np.deg2rad(ang)))])
            else:
                dvec = -nrm
            exp = [np.full(n, rb), mb * np.sqrt(gam * pb / rb) * dvec, np.full(n, pb)]
    ctx.describe(bc=name, side=["left", "right", "bottom", "top"][side], gamma=gam, params=par, interior=[ri[:3], Vi[:, :3], pi[:3]])
    got = model.namedBC(par["type"], nrm, [ri.copy(), Vi.copy(), pi.copy()], par)
    vn_ = np.abs(Vi[0] * nrm[0] + Vi[1] * nrm[1])
    for sname, msk in {"first-one": np.arange(n) < 1, "random-half": rng.random(n) < 0.5, "smallest-normal-velocities": vn_ <= np.quantile(vn_, 0.25),
                       "largest-normal-velocities": vn_ >= np.quantile(vn_, 0.75)}.items():
        if not np.any(msk):
            continue
        with probes.quiet():
            sub_ = model.namedBC(par["type"], nrm[:, msk], [ri[msk].copy(), Vi[:, msk].copy(), pi[msk].copy()], dict(par))
        for i in range(3):
            b_ = np.asarray(got[i], float)
            b_ = np.broadcast_to(b_, (2, n) if i == 1 else (n,))[..., msk]
            a_ = np.broadcast_to(np.asarray(sub_[i], float), b_.shape)
            same = (a_ == b_) | (np.isnan(a_) & np.isnan(b_))
            ctx.true("bc-elementwise", bool(np.all(same)), "inverse2d/%s/state-depends-on-the-other-faces-of-the-call" % name, None if np.all(same) else {"subset": sname, "component": i}, cls="inverse:2d")
    cond = 1.0 + (1.0 / mb ** 2 if name in ("insub", "insup", "insup-angle") else 0.0)
    sc = [np.abs(exp[0]), np.sqrt(gam * np.abs(exp[2] / exp[0])) * (1 + mi), np.abs(exp[2])]
    for i, nm in enumerate(["density", "velocity", "pressure"]):
        err = np.max(np.abs(np.asarray(got[i], float) - exp[i]) / sc[i]) / (cond if i == 1 else 1.0)
        ctx.close("inverse:2d", err, 1e-9, "inverse2d/%s/%s-not-the-constructed-state" % (name, nm), {"side": side, "gamma": gam}, cls="inverse:2d")
    ctx.nontrivial("inv2d", name, side, gam, ri[:3])


@group(quick=200, thorough=6000)
def dirichlet_all(ctx, rng, idx):
    """dirichlet for every model: scalar, list, array and 2D column-vector parameters are returned as imposed"""
    k = idx % 5
    if k == 0:
        m = conv.model(1.3); pr = [float(rng.uniform(-2, 2))]; data = [np.array([0.3])]
    elif k == 1:
        m = burgers.model(); pr = [np.array([float(rng.uniform(-2, 2))])]; data = [np.array([0.3])]
    elif k == 2:
        m = shw.shallowwater1d(); pr = [float(rng.uniform(0.1, 2)), float(rng.uniform(-2, 2))]; data = [np.array([1.0]), np.array([0.1])]
    elif k == 3:
        m = euler.euler1d(); pr = [1.0, float(rng.uniform(-2, 2)), 2.0]; data = [np.array([1.0]), np.array([0.1]), np.array([1.0])]
    else:
        m = euler.euler2d(); nf = int(rng.integers(1, 5))
        pr = [np.ones(nf), rng.uniform(-1, 1, (2, nf)), 2 * np.ones(nf)]; data = [np.ones(nf), np.zeros((2, nf)), np.ones(nf)]
    d = -1 if k < 4 else np.vstack([-np.ones(np.shape(pr[0])[0]), np.zeros(np.shape(pr[0])[0])])
    ctx.describe(model=m.equation, prim=pr)
    m.namedBC("dirichlet", d, data, {"type": "dirichlet", "prim": pr})
    ctx.nontrivial("dirichlet", k, pr)


@group(quick=500, thorough=15000)
def traffic(ctx, rng, idx):
    """boundary dispatches made by real rhs calls (1D all models, 2D all sides and tags) + shallow-water conditions"""
    k = idx % 3
    if k == 0:
        s = c15.random_spec(rng)
        ctx.describe(**s.desc())
        s.rhs()
        ctx.nontrivial(s.desc())
    else:
        s = gen.scenario1d(rng, bc=str(rng.choice(["sym", "open"])), models=["euler1d", "shallowwater", "nozzle", "convection", "burgers"], mach_max=2.0)
        ctx.describe(**s.desc())
        s.disc.rhs(s.field)
        ctx.nontrivial(s.desc())


@group(quick=300, thorough=10000)
def history(ctx, rng, idx):
    """ONE model object asked for the same condition with the SAME parameters on alternating sides (and, in 2D, on all four sides
    in turn), with other conditions in between: every answer must meet its definition whatever was asked before (judged by the
    always-on monitor; the imposed states are also compared between the two sides)"""
    gam = float(rng.choice([1.4, 5 / 3, 1.2]))
    n = 16
    rho0, p0 = float(10 ** rng.uniform(-1, 1)), float(10 ** rng.uniform(-1, 1))
    c0 = np.sqrt(gam * p0 / rho0)
    two_d = idx % 3 == 2
    names = ["insup", "insub", "insub_cbc", "outsub", "outsub_qtot", "outsub_nrcbc", "outsub_rh", "outsup", "sym"] if not two_d else ["insup", "insub", "outsub", "outsup", "sym"]
    name = names[(idx // 3) % len(names)]
    mref = float(rng.uniform(1.2, 2.5)) if name == "insup" else float(rng.uniform(0.1, 0.8))
    pt, rtt = refs.totals(rho0, mref * c0, p0, gam)
    par = {"type": name, "ptot": float(pt), "rttot": float(rtt), "p": float(p0)}
    ctx.describe(bc=name, two_d=two_d, gamma=gam, params=par)
    ctx.ev("history")
    if not two_d:
        model = euler.euler1d(gamma=gam) if idx % 2 else euler.nozzle(lambda x: 1 + 0 * x, gamma=gam)
        d0 = int(rng.choice([-1, 1]))
        answers = {}
        for k, d in enumerate([d0, -d0, d0, -d0]):
            rho = rho0 * rng.uniform(0.8, 1.25, n); p = p0 * rng.uniform(0.8, 1.25, n) if name != "insub" else np.full(n, p0)
            mach_in = rng.uniform(0.05, 0.7, n)
            # interior velocity compatible with the kind of condition on that side (inflow for inlets, outflow for outlets)
            un = -mach_in if name.startswith("in") else mach_in
            u = d * un * np.sqrt(gam * p / rho) * (3.0 if name in ("insup", "outsup") else 1.0)
            got = model.namedBC(name, d, [rho, u, p], dict(par))
            answers[k] = (d, [np.array(x, dtype=float, copy=True) for x in got])
            if k == 1:     # something else in between
                model.namedBC("outsub", d, [rho, u, p], {"type": "outsub", "p": p0 * 0.9})
        if name == "insup":    # fully imposed state: the two sides get mirror-image velocities, the same density and pressure
            (da, A), (db, B) = answers[0], answers[1]
            ok = np.allclose(np.broadcast_to(A[0], (n,)), np.broadcast_to(B[0], (n,)), rtol=1e-14) and np.allclose(np.broadcast_to(A[1], (n,)), -np.broadcast_to(B[1], (n,)), rtol=1e-14)
            ctx.true("history:insup-mirror", ok, "history/insup/state-on-one-side-is-not-the-mirror-of-the-other-side", {"first": [da, A[1]], "second": [db, B[1]]}, cls="history")
            (dc, C) = answers[2]
            ctx.true("history:insup-repeat", all(np.array_equal(np.broadcast_to(x, (n,)), np.broadcast_to(y, (n,))) for x, y in zip(A, C)), "history/insup/answer-depends-on-previous-calls", None, cls="history")
    else:
        model = euler.euler2d(gamma=gam)
        sides = [(-1.0, 0.0), (1.0, 0.0), (0.0, -1.0), (0.0, 1.0)]
        order = [sides[i] for i in rng.permutation(4)] * 2
        ang = float(np.round(rng.uniform(-180, 180), 1)) if rng.random() < 0.6 else [0.0, 0, -0.0, 90.0, 90, 180.0, -90.0, -180.0, 270.0, 360.0][int(rng.integers(10))]
        for k, nv in enumerate(order):
            nrm = np.vstack([np.full(n, nv[0]), np.full(n, nv[1])])
            rho = rho0 * rng.uniform(0.8, 1.25, n); p = p0 * rng.uniform(0.8, 1.25, n) if name != "insub" else np.full(n, p0)
            un = (-1.0 if name.startswith("in") else 1.0) * rng.uniform(0.05, 0.7, n) * (3.0 if name in ("insup", "outsup") else 1.0)
            ut = rng.uniform(-0.5, 0.5, n)
            cc = np.sqrt(gam * p / rho)
            V = cc * (un * nrm + ut * np.vstack([-nrm[1], nrm[0]]))
            pp = dict(par)
            if name == "insup" and k % 2:
                pp["angle"] = ang
            model.namedBC(name, nrm, [rho, V, p], pp)
    ctx.nontrivial("history", name, two_d, gam, par)


@group(quick=200, thorough=6000)
def integer_inputs(ctx, rng, idx):
    """interior states given as INTEGER arrays / python ints and integer-valued parameters (a user typing 2 for 2.): every
    condition must still meet its definition (judged by the always-on monitor), and give what the same call with floats gives"""
    two_d = idx % 4 == 3
    gam = float(rng.choice([1.4, 5 / 3, 1.2]))
    names = ["insup", "insub", "insub_cbc", "outsub", "outsub_prim", "outsub_qtot", "outsub_nrcbc", "outsub_rh", "outsup", "sym", "dirichlet"] if not two_d else ["insup", "insub", "outsub", "outsup", "sym", "insup-angle", "dirichlet"]
    name = names[(idx // 4) % len(names)]
    n = 12
    it = np.int64 if rng.random() < 0.7 else np.int32
    ri = rng.integers(1, 6, n).astype(it); pi = rng.integers(1, 7, n).astype(it)
    par = {"type": name.split("-")[0], "ptot": int(rng.integers(8, 30)), "rttot": int(rng.integers(1, 6)), "p": int(rng.integers(1, 7))}
    if name == "insup-angle":
        par["angle"] = int(rng.choice([30, 45, -60, 120, 200, 10]))
    ctx.ev("integer-inputs")
    if not two_d:
        model = euler.euler1d(gamma=gam)
        d = int(rng.choice([-1, 1]))
        ui = rng.integers(-2, 3, n).astype(it)
        if name == "dirichlet":
            par = {"type": "dirichlet", "prim": [int(rng.integers(1, 5)), int(rng.integers(-2, 3)), int(rng.integers(1, 5))]}
        ctx.describe(bc=name, dir=d, gamma=gam, params=par, interior=[ri, ui, pi], integer_typed=True)
        got = model.namedBC(par["type"], d, [ri.copy(), ui.copy(), pi.copy()], dict(par))
        ref = model.namedBC(par["type"], d, [ri.astype(float), ui.astype(float), pi.astype(float)], {k: (float(v) if not isinstance(v, (str, list)) else ([float(x) for x in v] if isinstance(v, list) else v)) for k, v in par.items()})
        sj = int(rng.integers(n))   # and one state as python ints
        gs = model.namedBC(par["type"], d, [int(ri[sj]), int(ui[sj]), int(pi[sj])], dict(par))
        for i in range(3):
            a_, b_ = np.broadcast_to(_arr(got[i]), (n,)), np.broadcast_to(_arr(ref[i]), (n,))
            ok = np.isfinite(b_)
            sc = np.abs(b_) + (np.sqrt(gam * pi / ri) if i == 1 else 0) + 1e-300
            if np.any(ok):
                ctx.close("integer-inputs", np.max(np.abs(a_ - b_)[ok] / sc[ok]), 1e-12, "integer-inputs/%s/differs-from-the-same-call-with-floats" % name, {"component": i}, cls="integer-inputs")
            if np.isfinite(b_[sj]):
                ctx.close("integer-inputs", abs(float(np.asarray(gs[i]).ravel()[0]) - b_[sj]) / sc[sj], 1e-12, "integer-inputs/%s/python-int-call-differs-from-the-same-call-with-floats" % name, {"component": i}, cls="integer-inputs")
    else:
        model = euler.euler2d(gamma=gam)
        nv = [(-1, 0), (1, 0), (0, -1), (0, 1)][int(rng.integers(4))]
        ntype = str(rng.choice(["float", "mesh"]))      # (integer normal arrays are not an input of the property: the solver's are floats)
        if ntype == "mesh":      # the normals the 2D solver itself would pass
            import flowdyn.mesh2d as fm2
            tag = {(-1, 0): "left", (1, 0): "right", (0, -1): "bottom", (0, 1): "top"}[nv]
            m2 = fm2.mesh2d(n if nv[0] == 0 else 3, 3 if nv[0] == 0 else n, 1.0, 1.0)
            nrm = m2.normal_of_bc(tag)
            nrm = nrm if np.array_equal(np.asarray(nrm, float)[:, 0], nv) else -np.asarray(nrm)
        else:
            nrm = np.vstack([np.full(n, nv[0]), np.full(n, nv[1])]).astype(float)
        Vi = rng.integers(-2, 3, (2, n)).astype(it)
        if name == "dirichlet":
            par = {"type": "dirichlet", "prim": [np.full(n, int(rng.integers(1, 5))), rng.integers(-2, 3, (2, n)), np.full(n, int(rng.integers(1, 5)))]}
        ctx.describe(bc=name, normal=nv, normal_type=ntype, gamma=gam, params=par, interior=[ri, Vi, pi], integer_typed=True)
        got = model.namedBC(par["type"], nrm, [ri.copy(), Vi.copy(), pi.copy()], dict(par))
        fpar = {k: (float(v) if isinstance(v, (int, np.integer)) else ([np.asarray(x, float) for x in v] if isinstance(v, list) else v)) for k, v in par.items()}
        ref = model.namedBC(par["type"], np.asarray(nrm, float), [ri.astype(float), Vi.astype(float), pi.astype(float)], fpar)
        c = np.sqrt(gam * pi / ri)
        for i in range(3):
            a_, b_ = np.asarray(got[i], float), np.asarray(ref[i], float)
            a_, b_ = np.broadcast_arrays(a_, b_)
            ok = np.isfinite(b_)
            sc = np.abs(b_) + (c if i == 1 else 0) + 1e-300
            if np.any(ok):
                ctx.close("integer-inputs", np.max((np.abs(a_ - b_) / sc)[ok]), 1e-12, "integer-inputs/2d-%s/differs-from-the-same-call-with-floats" % name, {"component": i, "normal type": ntype}, cls="integer-inputs")
    ctx.nontrivial("int", name, two_d, gam, ri[:3], pi[:3])
