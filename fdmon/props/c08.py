"""C08 solve is pure: bitwise comparison of states reached through different call histories; monitor records
recomputed from the trajectory captured by the solve recorder."""
import numpy as np

import flowdyn.field as ffield
import flowdyn.modeldisc as md

from .. import core, gen, probes, solvelog
from ..core import group

MODELS = ["convection", "convection", "burgers", "euler1d", "shallowwater"]


def setup(ctx):
    solvelog.install()
    solvelog.BUDGET["steps"] = 3000
    ctx.on_begin.append(solvelog.reset)
    ctx.require("repeat-same-object", "repeat-fresh-object", "after-unrelated-solve", "extra-saves", "monitors-attached",
                "restart-same-object", "restart-fresh-object", "monitor-records", "restart-monitor-tags")


def teardown(ctx):
    for e in probes.errors():
        ctx.harness_error(e)


class _Scn2D:
    """2D Euler problem with the attributes the groups use (explicit integrators only: see DESIGN 6/D15)"""
    mname, rname, is2d = "euler2d", "2d", True

    def __init__(self, rng):
        from . import c15
        self.spec = c15.random_spec(rng, nmax=4)
        self.spec.prim[1] = self.spec.prim[1] * 0.5
        self.mesh, self.model, self.disc, self.field = self.spec.build()
        self.rname = "extrapol2d1" if self.spec.k is None else "extrapol2dk"

    def fresh_disc(self):
        return self.spec.build()[2]

    def other_field(self, rng):
        n = self.mesh.ncell
        rho, V, p = self.spec.prim
        prim = [rho * rng.uniform(0.8, 1.2, n), V * rng.uniform(0.5, 1.0, (2, n)), p * rng.uniform(0.8, 1.2, n)]
        return ffield.fdata(self.model, self.mesh, self.model.prim2cons(prim))

    def desc(self):
        return self.spec.desc()


def _scn(rng, implicit=False):
    if not implicit and rng.random() < 0.15:
        return _Scn2D(rng)
    mname = str(rng.choice(MODELS))
    s = gen.scenario1d(rng, mname=mname, bc=str(rng.choice(["per", "per", "sym", "open"])), nmin=3, nmax=10, fluxes=gen.UPWIND_FLUXES, mach_max=1.0, ratio=3.0,
                       recons=["extrapol1", "extrapol2", "extrapol3", "muscl_minmod", "muscl_vanalbada", "extrapolk"], anysection=0.5)
    s.is2d = False
    s.fresh_disc = lambda: md.fvm(s.model, s.mesh, s.num, numflux=s.flux, bcL=s.bcL, bcR=s.bcR)
    def other_field(rng):
        other, _ = gen.prim_for(s.mname, s.model, rng, s.mesh.ncell, None, mach_max=1.0, ratio=3.0)
        return gen.fdata_prim(s.model, s.mesh, other)
    s.other_field = other_field
    return s


def _same(a, b):
    return a["time"] == b["time"] and all(np.array_equal(x, y, equal_nan=True) for x, y in zip(a["data"], b["data"]))


def _diff(a, b):
    sc = max(np.max(np.abs(x)) for x in a["data"]) + 1e-300
    return {"dtime": b["time"] - a["time"], "max data diff / max|q|": max(np.max(np.abs(x - y)) for x, y in zip(a["data"], b["data"])) / sc}


def _traj(call, *a, **k):
    """run one real solve/restart, return (trajectory, result list, log)"""
    del solvelog.LOGS[:]
    res = call(*a, **k)
    log = solvelog.LOGS[-1]
    return log.trajectory(), res, log


def _monitors(rng, model):
    mons, desc = {}, {}
    names = {"convection": ["q"], "burgers": None, "euler": ["density", "pressure", "mach"], "shallowwater": ["height", "velocity"]}[model.equation]
    if rng.random() < 0.7:
        fr = int(rng.integers(1, 5))
        key = str(rng.choice(["residual", "resmon"]))
        mons[key] = {"frequency": fr} if key == "residual" else {"type": "residual", "frequency": fr}
        desc[key] = dict(mons[key])
    if names and rng.random() < 0.7:
        fr = int(rng.integers(1, 5))
        mons["avg"] = {"type": "data_average", "data": str(rng.choice(names)), "frequency": fr}
        desc["avg"] = dict(mons["avg"])
    if not mons:
        mons["residual"] = {"frequency": 2}; desc["residual"] = {"frequency": 2}
    return mons, desc


def _check_monitor_records(ctx, s, log, mons, before_len, iname):
    """records appended during this call = exactly the multiples of frequency in [itstart, itstart+nit], with the
    time and the value of the trajectory state at that iteration (recomputed here, fresh discretisation)"""
    traj = log.trajectory()
    by_it = {t["totnit"]: t for t in traj}
    vol = s.mesh.vol()
    for key, par in mons.items():
        out = par.get("output")
        typ = par.get("type", key)
        fr = par.get("frequency", 10)
        exp_its = [it for it in range(log.itstart, log.itstart + log.nit + 1) if it % fr == 0]
        if out is None:
            ctx.true("monitor-records", not exp_its, "monitor/no-output", {"monitor": key, "expected its": exp_its}, cls="monitor-records")
            continue
        n0 = before_len.get(key, 0)
        its, times, vals = out._it[n0:], out._time[n0:], out._value[n0:]
        ctx.true("monitor-records", list(its) == exp_its, "monitor/iterations-not-multiples-of-frequency", {"monitor": key, "frequency": fr, "recorded": list(its), "expected": exp_its, "itstart": log.itstart}, cls="monitor-records")
        for it, tm, v in zip(its, times, vals):
            st = by_it.get(it)
            if st is None:
                continue
            ctx.true("monitor-time", tm == st["time"], "monitor/time-not-state-time", {"it": it, "recorded": tm, "state time": st["time"]}, cls="monitor-records")
            f = ffield.fdata(s.model, s.mesh, st["data"], t=st["time"])
            with probes.quiet():
                if typ == "residual":
                    disc = s.fresh_disc()
                    r = disc.rhs(f)
                    if s.is2d:      # the norm of a vector-valued residual is the code's own definition (not part of the property)
                        ref = disc.all_L2average(r)
                    else:
                        ref = np.sqrt(np.mean([np.sum(vol * rq ** 2) / np.sum(vol) for rq in r]))
                else:
                    ref = np.sum(vol * f.phydata(par["data"])) / np.sum(vol)
            if not np.isfinite(ref):
                continue
            ctx.close("monitor-value", abs(v - ref) / (abs(ref) + 1e-300) if ref != 0 else abs(v), 1e-10, "monitor/value-not-of-state-at-that-iteration/" + typ,
                      {"it": it, "recorded": v, "recomputed": ref}, cls="monitor-records")


@group(quick=450, thorough=15000)
def repeat(ctx, rng, idx):
    """solve; disturb the solver object (unrelated solve with saves/monitors); solve again; fresh object"""
    iname = gen.ALL_INTEG[idx % len(gen.ALL_INTEG)]
    implicit = iname in gen.IMPLICIT
    s = _scn(rng, implicit)
    cfl = float(rng.uniform(0.1, 0.4) if not implicit else rng.uniform(0.2, 1.5))
    N = int(rng.integers(1, 9))
    make = lambda: gen.integ(iname)(s.mesh, s.disc)
    ctx.describe(integrator=iname, cfl=cfl, N=N, **s.desc())
    S = make()
    trajA, resA, _ = _traj(S.solve, s.field, cfl, stop={"maxit": N})
    A = trajA[-1]
    if not all(np.all(np.isfinite(d)) for d in A["data"]):
        raise core.Skip("nonfinite")
    # (a) same object again (the initial field as the same object or as a copy of it: its content is what counts)
    trajB, _, _ = _traj(S.solve, s.field if rng.random() < 0.5 else s.field.copy(), cfl, stop={"maxit": N})
    ctx.true("repeat-same-object", _same(A, trajB[-1]), "repeat/same-object/%s" % ("gear" if iname == "gear" else "implicit" if implicit else "explicit"), _diff(A, trajB[-1]), cls="repeat-same-object")
    # (c) unrelated solve on the same object (other field, save times, monitors), then again
    fo = s.other_field(rng)
    mons, mdesc = _monitors(rng, s.model)
    dto = float(np.min(s.disc.calc_timestep(fo, cfl)))
    if np.isfinite(dto):
        try:
            S.solve(fo, cfl, [0.3 * dto, 1.7 * dto, 2.2 * dto], stop={"maxit": 4}, monitors=mons)
        except np.linalg.LinAlgError:
            pass
        trajC, _, _ = _traj(S.solve, s.field, cfl, stop={"maxit": N})
        ctx.true("after-unrelated-solve", _same(A, trajC[-1]), "repeat/after-unrelated-solve/%s" % ("gear" if iname == "gear" else "implicit-linear-model" if implicit and s.model.islinear else "implicit" if implicit else "explicit"),
                 _diff(A, trajC[-1]), cls="after-unrelated-solve")
        # same, on an object whose FIRST solve was the unrelated one
        S2 = make()
        try:
            S2.solve(fo, cfl, stop={"maxit": 2})
            trajE, _, _ = _traj(S2.solve, s.field, cfl, stop={"maxit": N})
            ctx.true("after-unrelated-solve", _same(A, trajE[-1]), "repeat/after-unrelated-first-solve/%s" % ("gear" if iname == "gear" else "implicit-linear-model" if implicit and s.model.islinear else "implicit" if implicit else "explicit"),
                     _diff(A, trajE[-1]), cls="after-unrelated-solve")
        except np.linalg.LinAlgError:
            pass
    # (b) fresh object
    trajD, _, _ = _traj(make().solve, s.field, cfl, stop={"maxit": N})
    ctx.true("repeat-fresh-object", _same(A, trajD[-1]), "repeat/fresh-object/%s" % ("implicit" if implicit else "explicit"), _diff(A, trajD[-1]), cls="repeat-fresh-object")
    ctx.nontrivial("repeat", iname, cfl, N, s.desc())


@group(quick=4, thorough=40)
def repeat_large_implicit(ctx, rng, idx):
    """the purity statements on implicit systems of 100-160 unknowns in the regime where the linear solve changes method from one
    step to the next (LU element growth, finding D19: left-running wave, upwind-biased kappa scheme, CFL 5-10): which method solves a
    step must depend on that step alone -- not on earlier steps, earlier solves or other solver objects of the same size"""
    import flowdyn.mesh as fmesh_
    import flowdyn.modelphy.convection as conv_
    iname = ["implicit", "cranknicolson", "gear", "backwardeuler", "trapezoidal"][idx % 5]
    n = int(rng.integers(100, 161)); cfl = float(rng.choice([5.0, 7.0, 10.0])); a = float(rng.choice([-1.0, -1.3]))
    rname = str(rng.choice(["quick", "fromm", "extrapol3"]))
    N = int(rng.integers(10, 31)); K = int(rng.integers(3, N - 2))
    mesh = fmesh_.unimesh(ncell=n, length=1.0)
    model = conv_.model(a)
    disc = md.fvm(model, mesh, gen.recon(rname)[0])
    f = ffield.fdata(model, mesh, [np.sin(2 * np.pi * mesh.centers()) + 0.3 * np.cos(6 * np.pi * mesh.centers())])
    make = lambda: gen.integ(iname)(mesh, disc)
    who = "gear" if iname == "gear" else "implicit"
    ctx.describe(integrator=iname, cfl=cfl, ncell=n, convcoef=a, recon=rname, N=N, K=K)
    S = make()
    A, _, _ = _traj(S.solve, f, cfl, stop={"maxit": N})
    if not all(np.all(np.isfinite(d)) for d in A[-1]["data"]):
        raise core.Skip("nonfinite")
    B, _, _ = _traj(S.solve, f, cfl, stop={"maxit": N})
    ctx.true("repeat-same-object", _same(A[-1], B[-1]), "large-implicit/repeat/same-object/" + who, _diff(A[-1], B[-1]), cls="repeat-same-object")
    C, _, _ = _traj(make().solve, f, cfl, stop={"maxit": N})
    ctx.true("repeat-fresh-object", _same(A[-1], C[-1]), "large-implicit/repeat/fresh-object/" + who, _diff(A[-1], C[-1]), cls="repeat-fresh-object")
    # N = K + (N - K) through restart on the same object
    S2 = make()
    mid = S2.solve(f, cfl, stop={"maxit": K})[-1]
    D, _, _ = _traj(S2.restart, mid, cfl, stop={"maxit": N - K})
    ctx.true("restart-same-object", _same(A[-1], D[-1]), "large-implicit/restart/same-object/" + who, _diff(A[-1], D[-1]), cls="restart-same-object")
    # a requested state in between does not change where the run ends
    tK = A[min(K, len(A) - 1)]["time"]; tN = A[-1]["time"]
    if np.isfinite(tK) and np.isfinite(tN) and tK < tN:
        E = make().solve(f, cfl, [0.5 * (tK + A[min(K, len(A) - 1) - 1]["time"]), tN], stop={"maxit": N + 5})
        G = make().solve(f, cfl, [tN], stop={"maxit": N + 5})
        ctx.true("extra-saves", np.array_equal(E[-1].data[0], G[-1].data[0]) and E[-1].time == G[-1].time, "large-implicit/extra-save-changes-the-final-state/" + who,
                 {"max diff": float(np.max(np.abs(E[-1].data[0] - G[-1].data[0])))}, cls="extra-saves")
    ctx.nontrivial("large-implicit", iname, n, cfl, a, rname, N)


@group(quick=450, thorough=15000)
def saves_and_monitors(ctx, rng, idx):
    """extra save times / monitors must not change the trajectory (compared state by state, bitwise)"""
    iname = gen.ALL_INTEG[idx % len(gen.ALL_INTEG)]
    implicit = iname in gen.IMPLICIT
    s = _scn(rng, implicit)
    cfl = float(rng.uniform(0.1, 0.4) if not implicit else rng.uniform(0.2, 1.5))
    N = int(rng.integers(2, 9))
    make = lambda: gen.integ(iname)(s.mesh, s.disc)
    # a quarter of the cases run with the local-time-step directive (the same one in every call of the case)
    dirs = {"dtlocal": True} if rng.random() < 0.25 else {}
    base, _, _ = _traj(make().solve, s.field, cfl, stop={"maxit": N}, directives=dict(dirs))
    times = [t["time"] for t in base]
    if not (np.all(np.isfinite(times)) and np.all(np.diff(times) > 0) and all(np.all(np.isfinite(d)) for t in base for d in t["data"])):
        raise core.Skip("nonfinite")
    nsave = int(rng.integers(1, 6))
    ks = sorted(int(k) for k in rng.integers(0, N, nsave))
    tsave = sorted(times[k] + float(rng.uniform(0.05, 0.9)) * (times[k + 1] - times[k]) for k in ks)
    if rng.random() < 0.5:
        # ... and times the trajectory reaches EXACTLY (read from a monitor or from the iterates of an earlier run): end of a step, bit for bit
        tsave = sorted(set(tsave + [times[int(k)] for k in rng.integers(1, max(2, N), int(rng.integers(1, 3)))]))
    mons, mdesc = _monitors(rng, s.model)
    ctx.describe(integrator=iname, cfl=cfl, N=N, tsave=tsave, monitors=mdesc, directives=dirs, **s.desc())
    who = "gear" if iname == "gear" else "implicit" if implicit else "explicit"
    # (d) extra save times
    S = make()
    t1, _, _ = _traj(S.solve, s.field, cfl, tsave, stop={"maxit": N, "tottime": times[-1] * 2 + 1e9}, directives=dict(dirs))
    ok = len(t1) == len(base) and all(_same(a, b) for a, b in zip(base, t1))
    ctx.true("extra-saves", ok, "saves/trajectory-changed-by-save-times/" + who, {"first differing iteration": next((k for k, (a, b) in enumerate(zip(base, t1)) if not _same(a, b)), None), "tsave": tsave}, cls="extra-saves")
    # (d') the caller's own argument objects reused between calls: ONE stop dictionary (and one directives dictionary) handed first
    # to a short run with an early last save time, then to the run under test -- same trajectory as with fresh literals, and the
    # dictionaries still hold what the caller wrote
    stopd = {"maxit": N}; dird = dict(dirs)
    early = [times[0] + 0.4 * (times[1] - times[0])]
    make().solve(s.field, cfl, early, stop=stopd, directives=dird)
    tr, _, _ = _traj(make().solve, s.field, cfl, tsave + [times[-1] * 2 + 1e9], stop=stopd, directives=dird)
    ok = len(tr) == len(base) and all(_same(a, b) for a, b in zip(base, tr))
    ctx.true("reused-arguments", ok, "saves/trajectory-changed-by-reusing-the-stop-dictionary-of-an-earlier-call/" + who, {"stop dictionary now": dict(stopd), "iterations": len(tr) - 1, "expected": len(base) - 1}, cls="extra-saves")
    ctx.true("reused-arguments", stopd == {"maxit": N} and dird == dict(dirs), "saves/caller-dictionaries-modified-by-solve", {"stop": dict(stopd), "directives": dict(dird)}, cls="extra-saves")
    # (e) monitors attached
    S2 = make()
    t2, _, log2 = _traj(S2.solve, s.field, cfl, stop={"maxit": N}, monitors=mons, directives=dict(dirs))
    ok = len(t2) == len(base) and all(_same(a, b) for a, b in zip(base, t2))
    ctx.true("monitors-attached", ok, "monitors/trajectory-changed-by-monitors/" + who, {"monitors": mdesc}, cls="monitors-attached")
    _check_monitor_records(ctx, s, log2, mons, {}, iname)
    # monitors given to the CONSTRUCTOR (merged with per-call ones; their output is kept across calls, so only the records
    # appended during the observed call are judged)
    cmons, cdesc = _monitors(rng, s.model)
    cmons = {"ctor_" + k: dict(v, type=v.get("type", k)) for k, v in cmons.items()}
    S4 = gen.integ(iname)(s.mesh, s.disc, monitors=cmons)
    t4, _, log4 = _traj(S4.solve, s.field, cfl, stop={"maxit": N}, directives=dict(dirs))
    ok = len(t4) == len(base) and all(_same(a, b) for a, b in zip(base, t4))
    ctx.true("monitors-attached", ok, "monitors/trajectory-changed-by-constructor-monitors/" + who, {"monitors": cdesc}, cls="monitors-attached")
    _check_monitor_records(ctx, s, log4, cmons, {}, iname)
    before = {k: len(v["output"]._it) for k, v in cmons.items() if "output" in v}
    t5, _, log5 = _traj(S4.solve, s.field, cfl, stop={"maxit": N}, monitors=mons, directives=dict(dirs))
    _check_monitor_records(ctx, s, log5, cmons, before, iname)
    ctx.true("monitors-attached", len(t5) == len(base) and all(_same(a, b) for a, b in zip(base, t5)), "monitors/trajectory-changed-by-constructor-and-call-monitors/" + who, None, cls="monitors-attached")
    # the remaining options of solve(): progress printing ('verbose' directive) and dumping every iteration to a file (flush)
    if not isinstance(s, _Scn2D):
        import contextlib, io, os, tempfile
        with tempfile.TemporaryDirectory() as td, contextlib.redirect_stdout(io.StringIO()):
            t6, _, _ = _traj(make().solve, s.field, cfl, tsave, stop={"maxit": N, "tottime": 1e30}, flush=os.path.join(td, "all.npy"), directives=dict(dirs, verbose=True))
        ok = len(t6) == len(base) and all(_same(a, b) for a, b in zip(base, t6))
        ctx.true("extra-saves", ok, "saves/trajectory-changed-by-verbose-or-flush/" + who, {"first differing iteration": next((k for k, (a, b) in enumerate(zip(base, t6)) if not _same(a, b)), None)}, cls="extra-saves")
    # both, on the object that already ran
    t3, _, log3 = _traj(S.solve, s.field, cfl, tsave, stop={"maxit": N, "tottime": 1e30}, monitors=mons, directives=dict(dirs))
    ok = len(t3) == len(base) and all(_same(a, b) for a, b in zip(base, t3))
    ctx.true("extra-saves", ok, "saves/trajectory-changed-by-saves-and-monitors/" + who, None, cls="extra-saves")
    _check_monitor_records(ctx, s, log3, mons, {}, iname)
    ctx.nontrivial("saves", iname, cfl, N, tsave, mdesc, s.desc())


@group(quick=450, thorough=15000)
def restart(ctx, rng, idx):
    """solve(N) + restart(M) == solve(N+M): state, time, cumulative iteration count, tags seen by monitors"""
    iname = gen.ALL_INTEG[idx % len(gen.ALL_INTEG)]
    implicit = iname in gen.IMPLICIT
    s = _scn(rng, implicit)
    cfl = float(rng.uniform(0.1, 0.4) if not implicit else rng.uniform(0.2, 1.5))
    N, M = int(rng.integers(1, 8)), int(rng.integers(1, 8))
    make = lambda: gen.integ(iname)(s.mesh, s.disc)
    mons, mdesc = _monitors(rng, s.model)
    ctx.describe(integrator=iname, cfl=cfl, N=N, M=M, monitors=mdesc, **s.desc())
    full, resF, logF = _traj(make().solve, s.field, cfl, stop={"maxit": N + M})
    if not all(np.all(np.isfinite(d)) for d in full[-1]["data"]):
        raise core.Skip("nonfinite")
    who = "gear" if iname == "gear" else "implicit" if implicit else "explicit"
    S = make()
    res1 = S.solve(s.field, cfl, stop={"maxit": N})
    mid = res1[-1]
    ctx.true("restart-same-object", mid.it == N, "restart/returned-field-iteration-tag", {"it": mid.it, "N": N}, cls="restart-same-object")
    # the field handed to restart() is the returned object itself, a copy of it, or a field rebuilt from its data, time and iteration
    # tag (a reloaded checkpoint): "from the returned field" means its CONTENT
    how = int(rng.integers(3))
    mid_arg = [mid, mid.copy(), ffield.fdata(mid.model, mid.mesh, [np.array(d, copy=True) for d in mid.data], t=mid.time, it=mid.it)][how]
    ctx.describe(restart_field=["returned object", "copy of it", "rebuilt from data/time/it"][how])
    t2, res2, log2 = _traj(S.restart, mid_arg, cfl, stop={"maxit": M}, monitors=mons)
    end = t2[-1]
    ctx.true("restart-same-object", _same(full[-1], end), "restart/same-object/state-differs/" + who, _diff(full[-1], end), cls="restart-same-object")
    ctx.true("restart-same-object", S.totnit() == N + M and S.nit() == M, "restart/cumulative-iteration-count", {"totnit": S.totnit(), "nit": S.nit(), "N": N, "M": M}, cls="restart-same-object")
    ctx.true("restart-same-object", res2[-1].it == N + M, "restart/final-field-iteration-tag", {"it": res2[-1].it, "expected": N + M}, cls="restart-same-object")
    _check_monitor_records(ctx, s, log2, mons, {}, iname)
    ctx.ev("restart-monitor-tags")
    # restart with ANOTHER CFL number on an object that has just solved with the first one == the same restart on a fresh object
    if iname != "gear":
        cfl2 = cfl * float(rng.choice([0.5, 0.37, 1.6 if implicit else 0.8]))
        S6 = make(); S6.solve(s.field, cfl, stop={"maxit": N})
        t6, _, _ = _traj(S6.restart, mid, cfl2, stop={"maxit": M}, directives={"dtlocal": True} if rng.random() < 0.2 else {})
        dirs6 = solvelog.LOGS[-1].directives
        t7, _, _ = _traj(make().restart, mid, cfl2, stop={"maxit": M}, directives=dict(dirs6))
        if all(np.all(np.isfinite(d)) for d in t6[-1]["data"] + t7[-1]["data"]):
            if implicit and s.model.islinear:
                if not s.rname.startswith("muscl"):
                    # the two objects hold finite-difference Jacobians of the same linear operator taken at different states
                    # (relative noise ~1e-7): the linear solves amplify that by the condition number of the step matrix
                    # (near-singular for anti-dissipative operators at these CFL numbers; thorough-tier witness)
                    # The difference is measured against the INITIAL data scale: damped modes decay by orders of magnitude while
                    # the noise left in the neutral (mean) mode does not (thorough-tier witness, seed 2).
                    d = _diff(t7[-1], t6[-1])
                    q0 = max(float(np.max(np.abs(x))) for x in s.field.data) + 1e-300
                    d["max data diff / max|q(0)|"] = max(float(np.max(np.abs(x - y))) for x, y in zip(t7[-1]["data"], t6[-1]["data"])) / q0
                    try:
                        with probes.quiet():
                            dt = float(np.min(s.disc.calc_timestep(s.field, cfl2)))
                        theta = 1.0 if iname in ("implicit", "backwardeuler") else 0.5
                        cond = float(np.linalg.cond(np.eye(S6.jacobian.shape[0]) / dt - theta * S6.jacobian))
                    except Exception:
                        cond = float("nan")
                    d["condition number of the step matrix"] = cond
                    if not cond <= 1e6:
                        ctx.skip("restart-other-cfl-linear:ill-conditioned-step-matrix")
                    else:
                        ctx.close("restart-other-cfl-linear", max(min(d["max data diff / max|q|"], d["max data diff / max|q(0)|"]), abs(d["dtime"]) / (abs(t7[-1]["time"]) + 1e-300)), 1e-4 * max(1.0, cfl) + 1e-6 * cond * M, "restart/other-cfl/state-depends-on-previous-call/implicit-linear", d, cls="restart-same-object")
            else:
                ctx.true("restart-same-object", _same(t7[-1], t6[-1]), "restart/other-cfl/state-depends-on-previous-call/" + who, dict(_diff(t7[-1], t6[-1]), cfl_first=cfl, cfl_restart=cfl2), cls="restart-same-object")
    # restart from a field that is NOT the state the object stopped at (another run's snapshot, a reloaded checkpoint, other data), on an
    # object whose last run was watched by a residual monitor at every iteration == the same restart on a fresh object: nothing the
    # monitors or the last step left on the object (a right-hand side "already evaluated") may enter the first step
    if iname != "gear" and not (implicit and s.model.islinear):
        other = ffield.fdata(s.model, s.mesh, [np.roll(np.array(d, copy=True), 1, axis=-1) for d in s.field.data], t=float(np.round(rng.uniform(-1, 2), 3)), it=int(rng.integers(0, 9)))
        S8 = make(); S8.solve(s.field, cfl, stop={"maxit": N}, monitors={"residual": {"frequency": 1}} if rng.random() < 0.7 else dict(_monitors(rng, s.model)[0]))
        t8, _, _ = _traj(S8.restart, other, cfl, stop={"maxit": M})
        t9, _, _ = _traj(make().restart, other, cfl, stop={"maxit": M})
        if all(np.all(np.isfinite(d)) for d in t8[-1]["data"] + t9[-1]["data"]):
            ctx.true("restart-same-object", _same(t8[-1], t9[-1]), "restart/unrelated-field/state-depends-on-previous-monitored-run/" + who, _diff(t8[-1], t9[-1]), cls="restart-same-object")
    # a solve() after the restart starts counting from zero again (iteration tags, monitor records, totnit)
    mons2 = {k: {kk: vv for kk, vv in v.items() if kk != "output"} for k, v in mons.items()}
    t4, res4, log4 = _traj(S.solve, s.field, cfl, stop={"maxit": N}, monitors=mons2)
    ctx.true("restart-same-object", S.totnit() == N and log4.itstart == 0 and res4[-1].it == N, "restart/solve-after-restart-keeps-iteration-offset",
             {"totnit": S.totnit(), "itstart": log4.itstart, "final it": res4[-1].it, "N": N}, cls="restart-same-object")
    ctx.true("restart-same-object", _same(full[min(N, len(full) - 1)], t4[-1]), "restart/solve-after-restart-differs/" + who, _diff(full[min(N, len(full) - 1)], t4[-1]), cls="restart-same-object")
    _check_monitor_records(ctx, s, log4, mons2, {}, iname)
    # restart on a fresh object: the returned field alone carries the state (multistep history excepted)
    if iname != "gear":
        S3 = make()
        t3, res3, _ = _traj(S3.restart, mid, cfl, stop={"maxit": M})
        if implicit and s.model.islinear:
            # the cached finite-difference Jacobian is re-differenced around another state: round-off level differences
            d = _diff(full[-1], t3[-1])
            if s.rname.startswith("muscl"):
                ctx.skip("restart-fresh:frozen-jacobian-with-limiter")
            else:
                q0 = max(float(np.max(np.abs(x))) for x in s.field.data) + 1e-300       # against the initial scale as well (see above)
                d["max data diff / max|q(0)|"] = max(float(np.max(np.abs(x - y))) for x, y in zip(full[-1]["data"], t3[-1]["data"])) / q0
                ctx.close("restart-fresh-linear", min(d["max data diff / max|q|"], d["max data diff / max|q(0)|"]), 1e-4 * max(1.0, cfl), "restart/fresh-object/state-differs/implicit-linear", d, cls="restart-fresh-object")
        else:
            ctx.true("restart-fresh-object", _same(full[-1], t3[-1]), "restart/fresh-object/state-differs/" + who, _diff(full[-1], t3[-1]), cls="restart-fresh-object")
        ctx.true("restart-fresh-object", S3.totnit() == N + M, "restart/fresh-object/cumulative-iteration-count", {"totnit": S3.totnit()}, cls="restart-fresh-object")
    ctx.nontrivial("restart", iname, cfl, N, M, s.desc())
