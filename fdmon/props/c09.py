"""C09 maximum principle / TVD for scalar laws.  Always-on monitor on every outermost step(): the event is classified
and the property asserted only where its stated preconditions hold."""
import numpy as np

import flowdyn.xnum as xnum
import flowdyn.modeldisc as md

from .. import core, gen, probes, solvelog
from ..core import group

CTX = None
SSP = {"explicit", "forwardeuler", "rk2_heun", "rk3ssp"}
LIMS = (xnum.minmod, xnum.vanalbada, xnum.vanleer, xnum.superbee)


def _limname(fn):
    fn = getattr(fn, "__fdmon_orig__", fn)
    return fn.__name__ if fn in LIMS else None


def classify(solver, tok):
    """returns (applicable class or None, reason)"""
    disc = solver.modeldisc
    if not isinstance(disc, md.fvm1d):
        return None, "not-1d-fvm"
    eqn = disc.model.equation
    if eqn not in ("convection", "burgers"):
        return None, "not-scalar"
    if type(solver).__name__ not in SSP:
        return None, "integrator-not-ssp"
    if not (disc.bcL["type"] == "per" and disc.bcR["type"] == "per"):
        return None, "not-periodic"
    if np.ndim(tok["dt"]) != 0:
        return None, "local-dt"
    num = disc.num
    vol = disc.mesh.vol()
    uniform = float(np.max(vol) / np.min(vol) - 1.0) < 1e-12
    before = tok["before"]
    with probes.quiet():
        import flowdyn.field as ffield
        dt1 = disc.calc_timestep(ffield.fdata(disc.model, disc.mesh, before["data"]), 1.0)
    dtmin = float(np.min(dt1))
    if not np.isfinite(dtmin) or dtmin <= 0:
        return None, "no-finite-cfl-step"
    cfl = float(tok["dt"]) / dtmin
    if cfl <= 0:
        return None, "nonpositive-dt"
    if type(num) is xnum.extrapol1:
        if eqn == "convection" and cfl <= 1.0 * (1 + 1e-12):
            return "upwind1/convection", cfl
        return None, "first-order-outside-stated-class"
    if type(num) is xnum.muscl:
        ln = _limname(num.limiter)
        if ln is None:
            return None, "user-limiter"
        if not uniform:
            return None, "muscl-nonuniform"
        if cfl <= 0.5 * (1 + 1e-12):
            return "muscl-%s/%s" % (ln, eqn), cfl
        return None, "muscl-cfl-above-half"
    return None, "unlimited-reconstruction"


def tv(q):
    return float(np.sum(np.abs(q - np.roll(q, 1))))


def observer(solver, tok, f_after):
    ctx = CTX
    if not probes.take("step"):
        return
    cls, info = classify(solver, tok)
    if cls is None:
        ctx.skip("step:" + info)
        return
    old = tok["before"]["data"][0]
    new = np.asarray(f_after.data[0], float)
    if not np.all(np.isfinite(old)):
        ctx.skip("step:nonfinite-before")
        return
    n = old.size
    tol = 1e-13 * n * (np.max(np.abs(old)) + 1e-300)
    iname = type(solver).__name__
    det = {"cfl": info, "integrator": iname, "old": old, "new": new}
    key = "%s" % cls
    ctx.true("max", np.all(np.isfinite(new)) and np.max(new) <= np.max(old) + tol, key + "/overshoot", {"excess": float(np.max(new) - np.max(old)), **det}, cls=cls)
    ctx.true("min", np.all(np.isfinite(new)) and np.min(new) >= np.min(old) - tol, key + "/undershoot", {"excess": float(np.min(old) - np.min(new)), **det}, cls=cls)
    ctx.true("tv", tv(new) <= tv(old) + tol, key + "/tv-increase", {"tv old": tv(old), "tv new": tv(new), **det}, cls=cls)
    d = ctx.info.setdefault("steps_by_integrator", {})
    d[iname] = d.get(iname, 0) + 1


def install(ctx):
    global CTX
    CTX = ctx
    solvelog.install(with_solve=False)
    solvelog.STEP_OBSERVERS.append(observer)
    ctx.on_begin.append(solvelog.reset)


def setup(ctx):
    install(ctx)
    req = ["upwind1/convection"]
    for l in gen.LIMITERS:
        req += ["muscl-%s/convection" % l, "muscl-%s/burgers" % l]
    ctx.require(*req)


def teardown(ctx):
    for e in probes.errors():
        ctx.harness_error(e)


@group(quick=1200, thorough=40000)
def scalar_runs(ctx, rng, idx):
    iname = ["explicit", "rk2_heun", "rk3ssp", "forwardeuler"][idx % 4]
    first = (idx // 4) % 3 == 0
    mname = "convection" if first else str(rng.choice(["convection", "burgers"]))
    rec = "extrapol1" if first else "muscl_" + gen.LIMITERS[(idx // 12) % 4]
    n = int(rng.integers(3, 61)) if rng.random() < 0.9 else int(rng.integers(1, 3))       # also 1- and 2-cell periodic meshes
    s = gen.scenario1d(rng, mname=mname, bc="per", recons=[rec], meshkinds=gen.MESH_KINDS if first else ["uni"], ncell=n,
                       dkind=str(rng.choice(["random", "step", "sawtooth", "square", "spike", "signchange", "antisym"])))
    if mname == "burgers" and rng.random() < 0.3:
        # stationary-shock pattern: exactly mirror-symmetric states u, -u next to each other
        q = s.field.data[0]
        k = int(rng.integers(0, max(1, n - 1))) if n > 1 else 0
        if n == 1:
            k = None
        if k is not None:
            a = abs(q[k]) + 0.3
            q[k], q[k + 1] = a, -a
    # "whatever the data": amplitudes far from 1 too -- around the 1e-20 regularisation scale of the smooth limiters (slopes of
    # 1e-22...1e-16), and anywhere between 1e-30 and 1e30; the monitor's tolerance is relative to the data
    r = rng.random()
    amp = float(10 ** rng.uniform(-24, -15)) if r < 0.15 else float(10 ** rng.uniform(-30, 30)) if r < 0.25 else 1.0
    if amp != 1.0:
        s.field.data[0] *= amp
    elif rng.random() < 0.15:
        # a small disturbance (1e-3...1e-10) riding on a constant: neighbouring values nearly, but not exactly, equal
        s.field.data[0] = float(rng.uniform(0.5, 2)) * float(rng.choice([-1, 1])) + float(10 ** rng.uniform(-10, -3)) * s.field.data[0]
        amp = "constant + small disturbance"
    lim = 1.0 if first else 0.5
    cfl = lim if rng.random() < 0.25 else float(rng.uniform(0.02, lim))
    nstep = int(rng.integers(1, 31))
    ctx.describe(integrator=iname, cfl=cfl, nstep=nstep, amplitude=amp, data=s.field.data[0], **{k: v for k, v in s.desc().items() if k != "prim"})
    solver = gen.integ(iname)(s.mesh, s.disc)
    # what the user of solve() gets back: snapshots at requested times (anywhere inside a step, a hair after / before the end of one,
    # exactly on it) -- every one of them inside the range of the initial data, with no more total variation (the monitor above
    # judges the steps it sees at the CFL number they are taken with; a snapshot reached by an over-long side step is a state the
    # caller obtained at the CFL number HE asked for)
    tsave = []
    if rng.random() < 0.4:
        with probes.quiet():
            dt0 = float(np.min(s.disc.calc_timestep(s.field, cfl)))
        if np.isfinite(dt0) and dt0 > 0:
            t0 = s.field.time
            for _ in range(int(rng.integers(1, 5))):
                kk = int(rng.integers(0, nstep + 1))
                tsave.append(t0 + dt0 * (kk + float(rng.choice([0.0005, 0.9995, 0.5, 0.0, float(rng.uniform(0.01, 0.99))]))))
            tsave = sorted(tsave)
    call = solver.solve
    if rng.random() < 0.2:
        # call history: the integrator object has run before -- on other data, watched by a residual monitor at every iteration -- and the
        # judged run CONTINUES on it through restart() from this case's field (a checkpoint of another run): every step is still a step of
        # the scheme from the state it is given
        other = s.field.copy()
        other.data[0] = np.roll(np.array(other.data[0], copy=True), 1)[::-1].copy()
        with probes.quiet(), np.errstate(all="ignore"):
            solver.solve(other, cfl, stop={"maxit": int(rng.integers(1, 4))}, monitors={"residual": {"frequency": 1}} if rng.random() < 0.8 else {})
        call = solver.restart
        ctx.ev("restart-on-a-used-integrator")
    res = call(s.field, cfl, tsave, stop={"maxit": nstep + 2})
    q0 = np.asarray(s.field.data[0], float)
    if type(s.num).__name__ == "extrapol1" and mname != "convection":
        res = []          # Burgers with first-order upwinding is not in the stated class
    for snap in res:
        q = np.asarray(snap.data[0], float)
        if not np.all(np.isfinite(q)):
            continue
        tol_ = 1e-13 * q0.size * (np.max(np.abs(q0)) + 1e-300) * (nstep + 3)
        cls_ = "upwind1/convection" if type(s.num).__name__ == "extrapol1" else "muscl-%s/%s" % (s.rname.split("_")[-1], mname)
        if s.rname.startswith("muscl_user"):
            continue
        ctx.true("snapshot-range", np.max(q) <= np.max(q0) + tol_ and np.min(q) >= np.min(q0) - tol_, cls_ + "/returned-snapshot-outside-the-range-of-the-initial-data",
                 {"snapshot time": snap.time, "excess above": float(np.max(q) - np.max(q0)), "excess below": float(np.min(q0) - np.min(q)), "cfl": cfl, "tsave": tsave}, cls=cls_)
        ctx.true("snapshot-tv", tv(q) <= tv(q0) + tol_, cls_ + "/returned-snapshot-with-more-total-variation-than-the-initial-data", {"snapshot time": snap.time, "tv": tv(q), "tv initial": tv(q0)}, cls=cls_)
    if np.ptp(s.field.data[0]) > 0:
        ctx.nontrivial("scalar", iname, cfl, nstep, s.desc())
