"""Per-property evidence metadata (rule describing generation / non-triviality, assumptions)."""
COMMON = [
    "numpy/scipy/LAPACK arithmetic is correct (IEEE-754 double)",
    "reference formulas written in the monitors (textbook physics, order conditions, kappa stencil) are correct",
    "runtime monitoring: the verdict covers only the executions driven by these workloads",
]

META = {}


def _m(pid, rule, extra=(), exhaustive_groups=()):
    META[pid] = {"rule": rule, "assumptions": COMMON + list(extra), "exhaustive_groups": list(exhaustive_groups)}


_m("C01", "cases are drawn per group from rng(seed, property, group, index): random model x flux x reconstruction x mesh kind x "
          "boundary class x data (ratios up to 1e6), 1-24 cells, 2D grids 1x1..6x6; every real rhs return is judged by the "
          "telescoping-balance monitor, short solves by the integral-drift oracle.  A case is non-trivial when its residual is "
          "finite and not identically zero; distinct = distinct hash of the full configuration + data.")

_m("C02", "every numflux dispatch of the real models is observed (after-hook on convection/burgers/shallowwater/euler numflux); "
          "generated arrays of 200-400 left/right state pairs per call mix equal states, exactly sonic, stagnation, uL=-uR, "
          "supersonic of either direction and ratios up to 1e6; plus face-state pairs produced by real rhs calls (1D/2D).  "
          "The monitor checks consistency where L==R exactly, re-invokes the same real function on the mirrored pair, and "
          "compares with the upwind physical flux where L, R and the Roe average are supercritical.  non-trivial: a call whose "
          "pairs are not all equal; distinct = hash(flux, gamma/g, first states).")

_m("C03", "uniform states: rho,p,h over 10^+-3, Mach/Froude in {0,1e-7,...,0.02,...,3} of either sign, any flow angle in 2D, every "
          "model x flux x reconstruction x mesh kind x matching boundary pair (periodic, dirichlet, inlet x outlet on the upstream/"
          "downstream side, supersonic inlet with angle, walls), nozzle at rest with random section laws; rhs residual and the "
          "state after 1-7 steps of every integrator (dtlocal on/off) are compared with zero drift, normalised by the flux scale "
          "rho*(|u|+c)^k/dx; total-pressure conditions add eps/M to the tolerance.  non-trivial: every case (a full scheme is run); "
          "distinct = hash of configuration + state.")

_m("C05", "every explicit integrator class (explicit, forwardeuler, rk2, rk2_heun, rk3_heun, rk3ssp, rk4, lsrk25bb, lsrk26bb, lsrk4) "
          "is driven through its real step() with a recording right-hand side: (a) unit-vector stage derivatives spell out the "
          "Butcher tableau (A, b) and the times presented to each stage, checked against rooted-tree order conditions, published "
          "Bogey-Bailly stability polynomials and Kraaijevanger's SSP criterion, for dt over 10^+-6 and start times != 0; (b) random "
          "nonlinear state/time-dependent right-hand sides and real flowdyn discretisations, scalar dt and local-dt arrays: every "
          "recorded stage input and the result must be reproduced through (A, b); (c) dt-halving order on non-autonomous nonlinear "
          "ODEs against scipy DOP853.  non-trivial: every case; distinct = hash(integrator, rhs coefficients, dt).",
   exhaustive_groups=["tableau (all explicit integrator classes)"])

_m("C06", "linear convection (either sign) x every linear reconstruction x all mesh kinds (3-24 cells) x periodic/Dirichlet x "
          "CFL in {0.01,0.1,1,10,100,random} x random/smooth/step/spike/zero-mean fields: the operator (A, b) is assembled by the "
          "monitor from the real rhs on unit impulses and one real step of implicit/backwardeuler/trapezoidal/cranknicolson/gear "
          "(scalar and local dt) is compared with numpy.linalg.solve of the theta / BDF2 system; norm growth on normal operators; "
          "dt-halving order against scipy expm; calc_jacobian of Euler/nozzle/Burgers/shallow-water smooth states vs Richardson "
          "central differences of the real rhs and column conservation.  non-trivial: every case; distinct = hash(config+data).")

_m("C07", "each case is one real solve()/restart() call (all 15 integrator classes x {convection, burgers, euler1d, shallowwater} x "
          "periodic/wall/open x CFL 0.05-2 x dtlocal on/off x start time != 0) with a save-time list placed relative to a dry-run "
          "trajectory: empty, [t_start], containing t_start, several inside one step, 1000-ulp apart, beyond the stop, all before "
          "the start, random; stop = tottime / maxit / both / tsave only.  Probes on _solve, every step(), _parse_monitors and "
          "calc_timestep record the call; the offline checker decides step advance, returned times, origin of every snapshot "
          "(forward side step <= CFL step from the current trajectory state, re-executed on a fresh integrator), finiteness, "
          "nit/totnit, first-stop, iteration tags and that the caller's field is bit-identical.  non-trivial: every logged solve "
          "with >= 1 main step or >= 1 request; distinct = hash(config, tsave, stop).")

_m("C08", "call histories on one solver object and on fresh objects, all 15 integrator classes x {convection (cached-Jacobian "
          "path), burgers, euler1d, shallowwater} x periodic/wall/open: solve twice; solve after an unrelated solve with saves and "
          "monitors; fresh object; with/without extra in-range save times; with/without residual/data_average monitors of random "
          "frequency; solve(N)+restart(M) vs solve(N+M) on the same and on a fresh object.  States are compared bitwise "
          "(np.array_equal on every trajectory state captured at the _parse_monitors call sites), monitor records against values "
          "recomputed from the captured state with a fresh discretisation.  non-trivial: trajectories with finite, changing data; "
          "distinct = hash(config, N, M, tsave, monitors).")

_m("C09", "always-on monitor on every outermost step(): classifies the event (scalar model, periodic, reconstruction/limiter, mesh "
          "uniformity, integrator in {explicit, forwardeuler, rk2_heun, rk3ssp}, effective CFL recomputed from calc_timestep) and "
          "asserts max/min/TV monotonicity only where the stated preconditions hold.  Workload: convection (either sign) and Burgers, "
          "3-60 cells, random/step/sawtooth/square/spike/sign-changing/exactly antisymmetric data and u,-u stationary-shock pairs, "
          "CFL random in (0, limit] and exactly at the limit, 1-30 steps.  non-trivial: non-constant initial data; distinct = "
          "hash(config + data).")

_m("C10", "always-on monitor on every outermost step(): asserts finite data, density/depth > 0 and pressure > 0 after the step "
          "where the event satisfies the stated preconditions (extrapol1, flux in {hlle,hllc}/{rusanov,hll}, periodic or wall "
          "boundaries, uniform mesh, integrator in {explicit, forwardeuler, rk2_heun, rk3ssp}, effective CFL <= 1/2 recomputed from "
          "calc_timestep, admissible state before, no neighbouring pair beyond the vacuum criterion).  Workload: two/three-state "
          "Riemann data, random data, colliding and receding streams, ratios up to 1e3, Mach/Froude up to 3, gamma in "
          "{1.2,1.4,5/3}, 3-60 cells, up to 50 steps, CFL exactly 1/2 in 30% of runs.  non-trivial: every run; distinct = hash(config+data).")

_m("C11", "face states (pL, pR) that the real rhs leaves behind are read after each call: constant data (any model/mesh/scheme/BC, 1D "
          "and 2D) must be reproduced exactly; linear profiles a*x+b (|a| over 10^+-3) on uniform/refined/morphed/arbitrary "
          "monotone faces with non-periodic ends must be exact at interior faces for all k-schemes and all four limiters; the "
          "operator matrix assembled from the real rhs on unit impulses must equal the textbook kappa circulant - exhaustive over "
          "n=1..12 x {extrapol2, fromm, quick, extrapol3, centered, extrapolk(0.37), extrapolk(-0.6)} x both convection signs; 2D "
          "face states on periodic grids exhaustive over nx,ny=1..5 x {extrapol2d1, extrapol2dk(-1,0,1/3,1/2,1,0.37)}.  "
          "non-trivial: every case; distinct = hash(config).",
   exhaustive_groups=["kappa1d (n=1..12 x 7 schemes x 2 signs)", "kappa2d (nx,ny=1..5 x 7 schemes)"])

_m("C12", "the four real limiter functions are called on arrays of 4000 hostile (a,b) pairs and on scalars (all sign combinations, "
          "ratios 10^+-12, magnitudes 1e-150..1e150, exact zeros, equal arguments, +-1 ulp neighbours, exactly opposite) and are "
          "observed on every pair real MUSCL reconstructions feed them (wrapper installed on muscl.limiter at construction).  The "
          "oracle asserts zero at extrema, sign, <= 2 min and <= max bounds, and re-invokes the same real function for the "
          "symmetric, odd, scalar-vs-array, homogeneous (lambda = 2^7, 2^-5, 3.7, 1e-3) and diagonal twins.  non-trivial: every "
          "call with at least one same-sign pair; distinct = hash(limiter, first pairs).")

_m("C13", "metamorphic twins through the same real code: each generated 1D problem (all models incl. nozzle with a section law, all "
          "fluxes, all reconstructions/limiters, uniform/refined/morphed/arbitrary meshes, periodic/wall/every inlet-outlet-"
          "dirichlet type on either side, all 15 integrators, 1-8 steps) is rebuilt (i) mirrored (faces -xf reversed, velocities / "
          "convection speed negated, boundary conditions exchanged) and (ii) in other units with power-of-4 factors spanning "
          "4^+-10; rhs and solve results must be the mirror image / the rescaled result: bit-identical (np.array_equal) for "
          "explicit integrators x {convection, shallow water, Euler, nozzle} x reconstructions without regularisation constants, "
          "within tolerance otherwise (Burgers scalar pow, regularised limiters scaled up only, implicit 1e-5).  non-trivial: "
          "finite non-zero residual; distinct = hash(config + data + factors).")

_m("C14", "rolled twins through the same real code on uniform periodic meshes: 1D exhaustive over sizes n=1..12 and all shifts k<n "
          "(78 pairs x repeats), each with a random model (incl. nozzle with constant section), flux, reconstruction/limiter and "
          "integrator (all 15), rhs and 1-6 step solves compared after rolling (tol 1e-10 on the flux scale: linspace cell sizes "
          "differ by ulps; implicit 1e-4 with measured amplification); 2D exhaustive over nx,ny=1..5 and all shifts in x, y and both "
          "(euler2d x {centered,hlle} x {extrapol2d1, extrapol2dk(k)} x explicit integrators), compared bitwise.  non-trivial: "
          "finite non-zero residual; distinct = hash(config + data + shift).",
   exhaustive_groups=["shift1d ((n,k) pairs for n=1..12)", "shift2d ((nx,ny,kx,ky) for nx,ny=1..5)"])

_m("C15", "random 2D Euler problems (nx,ny=1..6, lx!=ly, {centered,hlle} x {extrapol2d1, extrapol2dk(-1,0,1/3,1/2,1)}, each side per (in "
          "pairs), sym, insub, insup (with/without angle), outsub, outsup or dirichlet with per-face data) are run through the real "
          "fvm2d.rhs together with their transposed and x-/y-reflected twins (tags, velocity components, inlet angles and dirichlet "
          "arrays transformed); 1D-varying data (along x or y, zero or uniform transverse velocity) are compared row by row with the "
          "real 1D euler1d operator with the same flux/reconstruction/boundary conditions.  tol 1e-11 on the flux scale.  "
          "non-trivial: every case (random non-uniform data); distinct = hash(config + data).")

_m("C16", "always-on monitor on every namedBC dispatch: the returned state is tested against the definitional identities of the "
          "condition (imposed/kept total pressure and temperature, pressure, entropy, Riemann invariants, Rankine-Hugoniot "
          "relations in the shock frame, flow direction, mirror state and zero wall mass/energy flux through the real flux "
          "functions).  Workload: inverse construction (boundary state chosen first, parameters and compatible interior states "
          "derived; 64 states per call, Mach 0.02-5, rho,p over 10^+-3, gamma in (1,2], dir=-1/+1; 2D all four sides, any flow "
          "angle, insup with/without angle), dirichlet for every model and parameter shape, and boundary dispatches made by "
          "real 1D/2D rhs calls.  non-trivial: every call; distinct = hash(condition, side, gamma, first states).")

_m("C17", "states with rho,p over 12 decades, Mach 1e-3..10 (and exactly 0), any direction in 2D (incl. axis-aligned), gamma in (1,2], "
          "on 1D meshes of 1-40 cells / 2D grids up to 6x6: the real prim2cons -> cons2prim round trip and every name returned by "
          "list_var() (through field.phydata -> model.nameddata, dispatches counted by a hook) are compared with textbook "
          "definitions computed from the generating primitive state, with the energy-conditioning factor; shapes (ncell,) / "
          "(2,ncell) asserted; nozzle massflow includes a random section law; shallow water, convection, Burgers likewise.  "
          "non-trivial: every case; distinct = hash(model, gamma, first states).",
   exhaustive_groups=["variable names: every name in list_var() of every model"])

_m("C18", "always-on monitors on every model.timestep and calc_timestep call: per cell, dt * rho(A) / (CFL * size) must be 1, rho(A) being "
          "the largest eigenvalue magnitude of the central-difference Jacobian of the model's own consistent flux F(W,W) (2D: along "
          "the velocity direction; size = face spacing in 1D, dx*dy/(dx+dy) in 2D, recomputed from the geometry); the same real "
          "function is re-invoked for the proportionality (2x CFL, 4x size, bitwise) and locality (other cells rescaled) twins.  "
          "Workload: all 1D models on all meshes with Mach/Froude up to 10, ratios up to 1e4, at rest, CFL over 10^+-3; 2D random "
          "grids incl. rest, hypersonic and axis-aligned flow; real solves (global and dtlocal) whose recorded main-step arguments "
          "must equal min over cells / the cell array.  non-trivial: every case; distinct = hash(config + data + CFL).")

_m("C19", "twin discretisations on the same field through the real rhs: (euler1d | shallow water | nozzle) with counted, state- and "
          "position-dependent source callables on every subset of equations (exhaustive over the 2^neq subsets) vs the same model "
          "without; nozzle vs euler1d for constant/linear/gaussian/exponential/polynomial section laws (face-difference dA/dx); all "
          "meshes, fluxes, reconstructions, boundary conditions.  The difference of residuals must be the source evaluated by the "
          "monitor, None entries exactly 0, every callable called exactly once per rhs, no leak between model instances.  "
          "non-trivial: finite residuals; distinct = hash(config + sources).",
   exhaustive_groups=["subsets of equations carrying a source (2^neq per model)"])

_m("C20", "always-on monitor on every outermost mesh constructor return (mesh1d/unimesh, refinedmesh, morphedmesh, mesh2d): face count, "
          "strict monotonicity, end points (image of the end points for a morphing), centres bitwise at face midpoints, positive "
          "volumes summing to the span, exact averages of constants, two uniform zones with the requested ratio when the zone "
          "proportion is a whole number of cells; 2D counts, volumes, centres, the four boundary index sets against the "
          "geometrically computed faces, outward unit normals, and orientation/adjacency cross-checked with the real first-order "
          "reconstruction.  Workload: ncell 1..200, nx,ny 1..12, lengths/origins over 10^+-3, ratios 0.1..10, integer and real zone "
          "proportions, affine/sinusoidal/exponential/piecewise morphings, plus the meshes the other workloads build.  "
          "non-trivial: every constructed mesh; distinct = hash(arguments).")

_m("C04", "final fields of real solves on mesh sequences: linear convection (speed of either sign, 1-3 random Fourier modes as exact cell "
          "averages, rk4/rk3ssp, 4 levels from 12-20 cells upward) for every reconstruction: least-squares order inside the design "
          "band; Euler Riemann problems (random non-vacuum data, ratios <= 10, |u|<c, each third as mirror image, {hlle,hllc} x "
          "{extrapol1, muscl(4 limiters)} x {explicit, rk2_heun, rk3ssp}) on 50/100/200/400 cells against an independent exact "
          "Riemann solver (Toro): L1 error ratio < 0.97 per doubling, <= 0.7 overall; packaged reference solutions "
          "(solution.euler_riemann, solution.euler_nozzle) pointwise against the independent exact solver / area-Mach + normal-shock "
          "relations in the subsonic, shocked and supersonic regimes.  non-trivial: every sequence; distinct = hash(config + data).")


# ----------------------------------------------------------------------------- input classes added after the independent-change rounds
# (DESIGN 3.0 / 8): appended to the rule of each property so that the evidence says what the workloads contain today
_ADDED = {
    "C01": "Also: integer-typed fields, 257-1500-cell meshes and 17-40 squared grids, domain lengths 1e-9..1e9, nearly uniform meshes, "
           "acoustic (nearly at rest) and one-directional stream data at operator level; solve1d_large: implicit systems just above 256 "
           "unknowns and explicit runs up to 400 cells; call histories mixing dtlocal and default solves. "
           "Sliver cells (1e-3..1e-8 of their neighbours) and refined ratios of 1e3..1e6, streams with one or two exceptional cells, user-supplied asymmetric limiters."
           " Source balance against the sources as the caller DECLARED them (nozzle geometric terms recomputed from the section law + the user's callables); Fortran-ordered / strided component arrays."
           " Call history 'used once, then another discretisation of the same model built (and used)' in every 1D scenario.",
    "C02": "Also: integer-typed states, nearly equal and nearly opposite states, one state against an array, sub-arrays selected by regime / "
           "position / at random re-evaluated and compared bit for bit with the full-array call (elementwise), python floats and numpy scalars.",
    "C03": "Also: fields built by fdata_fromprim from python scalars ([rho, [u, v], p]), large meshes, nozzle section laws that vanish exactly "
           "at a mesh face, jump, or are tiny/huge; same-parameter conditions on both sides of one model object (mirror_pairs). "
           "Supersonic inlet / outlet conditions on sides tangential to the flow."
           " Inlet Mach numbers down to 1e-7 (conditioning eps/M added to the tolerance, never divided out of the residual). Solve drift allowed round-off x the amplification the same solve applies to a 1e-12 perturbation (twin run, measured when the plain tolerance is exceeded): unstable fixed points of the insub / outsub_qtot closures = known finding D21 under its own key, other configurations amplifying > 1e4 counted as skipped.",
    "C04": "Also: arbitrary mesh origin and every class that builds a uniform mesh, maximum-norm order for the linear schemes, strong Riemann "
           "data (ratios 1e4, supersonic streams) on arbitrary meshes for the packaged reference, nozzle sections in any units. "
           "Expansions through the sonic point (and mirror images): the density jump at the sonic point must shrink under refinement; error decrease strict."
           " Convergence orders in other units of the data (1e-8..1e8), of the length (1e-6..1e6) and of the speed (1e-4..1e4); two intermediate snapshots of every run judged for order; Riemann sequences whose coarsest pair is pre-asymptotic continued to 800 cells.",
    "C05": "Also: right-hand sides that return fresh arrays, one work buffer overwritten at every call, or arrays they keep (look-up tables): "
           "coefficients and results must not depend on it and the kept arrays must come back untouched; the library's own propagator() and "
           "cflmax() against the stability function of the extracted tableau; every step inside real solves recomputed from the tableau. "
           "The time step as python float / numpy scalar / 0-d array / shape-(1,) array, the observed step being the second or third consecutive step on one field; right-hand sides returning views of the field they were given.",
    "C06": "Also: matrix_step (dQ/dt = A Q for random dissipative-or-neutral matrices, buffer-reusing right-hand sides), "
           "trajectory_in_solve (recorded main trajectory of real solves with save times inside the first step, monitors, used integrators: "
           "Crank-Nicolson start + BDF2 recurrence / theta scheme), nonlinear_step (increment of one real step on Euler / nozzle / shallow "
           "water / Burgers = solution of the linearised system with one global or one per-cell time step). "
           "large_linear_step (150..2200 unknowns incl. fixed witnesses of the repaired LU element growth, QR reference), stretched_mesh_order (known finding D20: fixed witness + random stretched meshes, exact-operator twin)."
           " nonlinear_step in units 1e-8..1e8 of the state.",
    "C07": "Also: stop criteria written in either dictionary order, save times as list / tuple / array, start times up to +-1e6, CFL as numpy "
           "scalar, requests bitwise on trajectory times, integrators used before with another CFL and dtlocal. "
           "Caller's stop / directives / save-time arguments untouched; single steps with every form of a global time step."
           " Stamped fields (it > 0) handed to solve(): the outermost public call in progress is the one judged; nozzles with random (also steep) section laws.",
    "C08": "Also: a quarter of the save/monitor purity cases with the dtlocal directive, the verbose directive and the flush option, restart with "
           "another CFL against a fresh object, constructor-level monitors, 2D Euler scenarios. "
           "One stop / directives dictionary reused across calls with other save times."
           " Save times bitwise on trajectory times (taken from a dry run): trajectory with and without requests compared bit for bit."
           " repeat_large_implicit: 100-160 unknowns in the LU-element-growth regime (repeat / fresh object / restart / extra save, bit for bit); restart from an unrelated field on an object whose last run was watched by a residual monitor vs a fresh object; nozzles with random section laws.",
    "C09": "Also: data amplitudes 1e-30..1e30 (half of them around the limiters' 1e-20 regularisation scale), small disturbances on a constant, "
           "uniform meshes from every mesh class, 1- and 2-cell meshes."
           " Every returned snapshot (not only the trajectory) within the initial range / total variation, requests just beyond step ends."
           " A fifth of the runs continue through restart() on an integrator that has just run on other data under a residual monitor.",
    "C10": "Also: jumps up to 1e8, integer-typed admissible data (refused loudly by the unchanged library = skipped; a run that goes through is "
           "judged), integrators used before with dtlocal and another CFL. "
           "At-rest and column-at-rest (dam-break / blast) data, gravities over 1e-2..1e2."
           " Gas units over 50 decades (densities / pressures far below machine epsilon in the caller's units), power-of-two unit twins bit for bit.",
    "C11": "Also: nearly uniform meshes, domain lengths 1e-9..1e9, large meshes; kappa operator on constant + small perturbation, tiny, huge and "
           "one-ulp-apart seam data; scheme objects reused on a second mesh."
           " Linear profiles sampled as cell averages at the midpoints of mesh.xf (computed by the monitor); integer-typed unit impulses in the kappa operator.",
    "C12": "Also: nearly equal pairs (ratio 1 +- 1e-15..1e-3), integer-typed slopes, sub-arrays by sign pattern / position / shape compared bit "
           "for bit with the full-array call.",
    "C13": "Also: a quarter of the twins with dtlocal, large problems, units of the nozzle section area, twins sharing scheme / model objects. "
           "Tolerances include ulp(x)/dx_min on sliver meshes (bitwise classes unchanged)."
           " Implicit twins that start on a kink of the operator (forward and backward difference quotients > 1e-3 apart) skipped; unit twins judged with the condition numbers of both runs' step matrices.",
    "C14": "Also: a quarter of the twins with dtlocal, large periodic meshes beyond the exhaustive sizes, grids periodic in one direction only. "
           "Streams with one or two exceptional cells (first / last cell preferred)."
           " Domains of 1e-9..1e9; streams with an exceptional cell at the seam sampled on purpose."
           " Scheme and model objects used beforehand on a stretched mesh of the same number of cells, length and origin (30 % of the shift cases).",
    "C15": "Also: insup angles on the axes (0, -0.0, 90, 180, 270, 360; int and float), twins sharing one model object."
           " Fortran-ordered and strided-view component arrays (the layout the library itself builds from a uniform state) against their C-contiguous copies."
           " Steep admissible data (neighbours 10-250 times apart: face states of the unlimited extrapolation overshoot zero) in vs1d and the symmetry twins.",
    "C16": "Also: integer-typed interior states and parameters, nearly-at-rest states (wall reversal judged relative to the normal component "
           "itself), normals taken from the mesh, alternating-side call histories on one model object."
           " Slow flows (Mach 1e-8..1e-1) in the inverse problems, conditioning eps/M added to the tolerance.",
    "C17": "Also: integer-typed states, mixed scalar / array arguments of prim2cons and cons2prim, large meshes, model objects re-discretised on "
           "other meshes. "
           "Post-processing helpers (average, stats) and in-place work on the arrays phydata returns, then field and variables re-judged; sub-array twins of the conversions."
           " Gas units over 50 decades in the round trips."
           " Mach numbers up to 1e6 (htot / rttot judged without the M^2 conditioning of the pressure; definitions that overflow a double not compared).",
    "C18": "Also: fields carrying another model object of the same family, domain lengths 1e-9..1e9, large meshes; only admissible cells are "
           "judged; call histories with other CFL numbers (time steps recomputed by the monitor). "
           "Thin layers / rarefied states over 26 decades (formula of the statement as reference where the eigenvalues are ill-conditioned); under dtlocal the update of the last iteration recomputed with one time step per cell (forward Euler, implicit, Crank-Nicolson)."
           " Nozzles with random section laws, smooth or steep (sudden expansion, sharp throat, fast growth): the time step must not depend on the section.",
    "C19": "Also: sources returning python floats, numpy scalars / 0-d arrays, lists, stored arrays and state components; integer-typed fields; "
           "section areas in any units; interleaved discretisations of one model object; three consecutive rhs calls. "
           "Sources with a defaulted third parameter (callable objects and lambdas)."
           " Call histories: the same nozzle model handed to another discretisation before the first is used, after it was used once, or used itself in between."
           " One callable object declared for several equations; the caller's source list must still hold the very objects he declared.",
    "C20": "Also: every mesh judged again after other meshes were built; 2D meshes judged against the constructor arguments; positional / keyword "
           "/ default / numpy-integer call forms; integer-typed morphings; large meshes.",
}
for _pid, _txt in _ADDED.items():
    META[_pid]["rule"] = META[_pid]["rule"] + "  " + _txt
