"""Per-property evidence metadata (rule describing generation / non-triviality, assumptions)."""
COMMON = [
    "numpy/scipy/LAPACK arithmetic is correct (IEEE-754 double)",
    "reference formulas written in the monitors (textbook physics, order conditions, kappa stencil) are correct",
    "runtime monitoring: the verdict covers only the executions driven by these workloads",
]

META = {}


def _m(pid, rule, extra=(), exhaustive_groups=()):
    META[pid] = {"rule": rule, "assumptions": COMMON + list(extra), "exhaustive_groups": list(exhaustive_groups)}


_m("C01", "cases are drawn per group from rng(seed, property, group, index): random model x flux x reconstruction x mesh kind x "
          "boundary class x data (ratios up to 1e6), 1-24 cells, 2D grids 1x1..6x6; every real rhs return is judged by the "
          "telescoping-balance monitor, short solves by the integral-drift oracle.  A case is non-trivial when its residual is "
          "finite and not identically zero; distinct = distinct hash of the full configuration + data.")

_m("C02", "every numflux dispatch of the real models is observed (after-hook on convection/burgers/shallowwater/euler numflux); "
          "generated arrays of 200-400 left/right state pairs per call mix equal states, exactly sonic, stagnation, uL=-uR, "
          "supersonic of either direction and ratios up to 1e6; plus face-state pairs produced by real rhs calls (1D/2D).  "
          "The monitor checks consistency where L==R exactly, re-invokes the same real function on the mirrored pair, and "
          "compares with the upwind physical flux where L, R and the Roe average are supercritical.  non-trivial: a call whose "
          "pairs are not all equal; distinct = hash(flux, gamma/g, first states).")
