"""Recorder of solve/restart executions: hooks the real timemodel._solve, every step(), _parse_monitors and the
discretisations' calc_timestep, and builds one log per solve call (trajectory captured at the _parse_monitors
call sites, every step classified main/side).  Offline checkers (C07, C08, C18) work on these logs."""
import copy

import numpy as np

import flowdyn.integration as tn
import flowdyn.modeldisc as md

from . import core, probes

LOGS = []          # finished solve logs (consumers pop them)
_stack = []        # solves in progress
_depth = {"step": 0}
STEP_OBSERVERS = []   # callables(event) for always-on step monitors (C09, C10): event dict, outermost steps only
BUDGET = {"steps": 20000}


def _copy_field(f):
    return {"time": f.time, "it": f.it, "data": [np.array(d, copy=True) for d in f.data]}


class SolveLog:
    def __init__(self, solver, args):
        self.solver_class = type(solver).__name__
        f, condition, tsave, stop, flush, monitors, directives = args
        self.f_before = _copy_field(f)
        self.f_obj = f
        self.condition = condition
        self.tsave = [float(t) for t in tsave]
        self.stop = dict(stop) if stop else None
        self.directives = dict(directives)
        self.itstart = solver._itstart
        self.events = []          # ("dt", array) ("step", {...}) ("traj", {...})
        self.result = None
        self.f_after = None
        self.raised = None
        self.api = None

    # derived views ------------------------------------------------------------
    def trajectory(self):
        return [e[1] for e in self.events if e[0] == "traj"]

    def iterations(self):
        """list of dicts per main-loop iteration: dt array, side steps, main step"""
        its, cur = [], None
        for kind, ev in self.events:
            if kind == "traj":
                if cur is not None and cur["steps"]:
                    cur["main"] = cur["steps"][-1]
                    cur["side"] = cur["steps"][:-1]
                    its.append(cur)
                cur = {"dt": None, "steps": [], "from": ev}
            elif cur is not None:
                if kind == "dt":
                    cur["dt"] = ev
                elif kind == "step":
                    cur["steps"].append(ev)
        self.dangling = cur["steps"] if cur else []
        return its


_pending = []      # arguments of the public solve()/restart() call in progress (recorded at the API boundary)


def _api_before(name):
    def before(args, kwargs):
        # solve(self, f, condition, tsave=[], stop=None, flush=None, monitors={}, directives={})  /  restart(...) same signature
        names = ["f", "condition", "tsave", "stop", "flush", "monitors", "directives"]
        a = dict(zip(names, args[1:]))
        a.update({k: v for k, v in kwargs.items() if k in names})
        rec = {"method": name, "tsave": [float(t) for t in a.get("tsave", [])], "stop": dict(a["stop"]) if a.get("stop") else None,
               "directives": dict(a.get("directives") or {}), "f_time": a["f"].time if "f" in a else None}
        _pending.append(rec)
        return rec
    return before


def _api_after(args, kwargs, result, rec):
    if rec in _pending:
        _pending.remove(rec)


def _api_error(args, kwargs, exc, rec):
    if rec in _pending:
        _pending.remove(rec)


def _solve_before(args, kwargs):
    solver = args[0]
    log = SolveLog(solver, args[1:8])
    if _pending:
        # what the CALLER asked for (save times, stop criteria, directives), as opposed to what reached _solve: a public method that
        # edits its arguments before delegating would otherwise be judged against its own edited request
        # (the OUTERMOST public call in progress: a solve() that delegates to restart() is still the caller's solve())
        api = _pending[0]
        log.api = api
        log.tsave_at_solve, log.stop_at_solve = log.tsave, log.stop
        log.tsave, log.stop, log.directives = list(api["tsave"]), (dict(api["stop"]) if api["stop"] else None), dict(api["directives"])
    _stack.append(log)
    return log


def _solve_after(args, kwargs, result, log):
    if _stack and _stack[-1] is log:
        _stack.pop()
    log.result = [_copy_field(s) for s in result.solutions] if result is not None else None
    log.f_after = _copy_field(log.f_obj)
    log.nit, log.totnit = args[0].nit(), args[0].totnit()
    log.f_obj = None
    LOGS.append(log)


def _step_before(args, kwargs):
    _depth["step"] += 1
    if _depth["step"] > 1:
        return None
    f = args[1] if len(args) > 1 else kwargs.get("field", kwargs.get("f"))
    dt = args[2] if len(args) > 2 else kwargs.get("dtloc")
    tok = {"t0": f.time, "dt": np.array(dt, copy=True) if np.ndim(dt) else dt, "solver": type(args[0]).__name__}
    if STEP_OBSERVERS:
        tok["before"] = _copy_field(f)
    if _stack:
        n = sum(1 for e in _stack[-1].events if e[0] == "step")
        if n > BUDGET["steps"]:
            _depth["step"] -= 1
            raise core.Budget("steps")
    return tok


def _step_after(args, kwargs, result, tok):
    _depth["step"] -= 1
    if tok is None:
        return
    f = args[1] if len(args) > 1 else kwargs.get("field", kwargs.get("f"))
    tok["t1"] = f.time
    tok["finite"] = bool(all(np.all(np.isfinite(d)) for d in f.data))
    if _stack:
        tok["data"] = [np.array(d, copy=True) for d in f.data]
        _stack[-1].events.append(("step", tok))
    for ob in STEP_OBSERVERS:
        ob(args[0], tok, f)


def _pm_after(args, kwargs, result, tok):
    solver = args[0]
    if _stack:
        q = solver.Qn
        _stack[-1].events.append(("traj", {"nit": solver._nit, "totnit": solver.totnit(), "time": q.time, "_time": solver._time,
                                           "data": [np.array(d, copy=True) for d in q.data], "it": q.it}))


def _dt_after(args, kwargs, result, tok):
    if _stack:
        _stack[-1].events.append(("dt", np.array(result, dtype=float, copy=True).ravel()))


def _step_error(args, kwargs, exc, tok):
    """the real step raised (singular implicit system, ...): keep the nesting counter balanced"""
    _depth["step"] = max(0, _depth["step"] - 1)


def _solve_error(args, kwargs, exc, log):
    if _stack and _stack[-1] is log:
        _stack.pop()
    log.raised = repr(exc)


def install(with_solve=True):
    """hook every class that defines step (nested calls are logged once through the depth counter)"""
    def sb(args, kwargs):
        return _step_before(args, kwargs)
    for cls in probes.defining_classes(tn.timemodel, "step"):
        probes.hook(cls, "step", before=sb, after=_step_after, error=_step_error)
    if with_solve:
        probes.hook(tn.timemodel, "_solve", before=_solve_before, after=_solve_after, error=_solve_error)
        for meth in ("solve", "restart"):
            probes.hook(tn.timemodel, meth, before=_api_before(meth), after=_api_after, error=_api_error)
        probes.hook(tn.timemodel, "_parse_monitors", after=_pm_after)
        probes.hook(md.fvm1d, "calc_timestep", after=_dt_after)
        probes.hook(md.fvm2dcart, "calc_timestep", after=_dt_after)


def reset():
    """after an exception inside a probed call the depth counter / stack may be left unbalanced"""
    _depth["step"] = 0
    del _stack[:]
    del LOGS[:]
    del _pending[:]
