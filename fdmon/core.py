"""Core of the monitoring framework: contexts, verdicts, witnesses, evidence, sharding.

A *check* (one property) is a set of *groups*; a group is a function ``fn(ctx, rng, idx)`` that
builds ONE case from ``rng`` (seeded by VERIF_SEED, property, group and case index only, so any
case can be re-executed alone), drives the real flowdyn code with it and lets the monitors judge what
they observe through ``ctx``.  Verdicts are three-valued: held / violated / inconclusive.
"""
import hashlib
import json
import os
import signal
import sys
import time
import traceback
import zlib
from collections import Counter, OrderedDict
from pathlib import Path

import numpy as np

VERIF = Path(__file__).resolve().parent.parent
REPO = Path(os.environ.get("FLOWDYN_REPO", "/repo")).resolve()
GUARD = "FLOWDYN_VERIF"

EXIT_HELD, EXIT_VIOLATED, EXIT_INCONCLUSIVE = 0, 1, 2


class Skip(Exception):
    """case outside the preconditions of the property (counted, never a verdict)"""


class CaseTimeout(Exception):
    pass


class Budget(Exception):
    """step budget of a case exhausted (see probes.step budget)"""


def jsonable(x, depth=0):
    """best-effort conversion of a case description to JSON (explicit values, no references)"""
    if isinstance(x, (str, bool, type(None))):
        return x
    if isinstance(x, (int, np.integer)):
        return int(x)
    if isinstance(x, (float, np.floating)):
        x = float(x)
        return x if np.isfinite(x) else repr(x)
    if isinstance(x, complex):
        return [x.real, x.imag]
    if isinstance(x, np.ndarray):
        if x.ndim == 0:
            return jsonable(x.item(), depth + 1)
        if x.size > 400:
            return {"shape": list(x.shape), "head": jsonable(x.ravel()[:20]), "sha": hashlib.sha1(np.ascontiguousarray(x).tobytes()).hexdigest()[:12]}
        return [jsonable(v, depth + 1) for v in x.tolist()]
    if isinstance(x, dict):
        return {str(k): jsonable(v, depth + 1) for k, v in x.items()}
    if isinstance(x, (list, tuple, set)):
        return [jsonable(v, depth + 1) for v in x]
    if callable(x):
        return getattr(x, "__name__", repr(x))
    return repr(x)


def group(quick, thorough=None, exhaustive=False, required=True):
    """decorator registering a group function in its module's GROUPS (ordered)."""
    def deco(fn):
        mod = sys.modules[fn.__module__]
        if not hasattr(mod, "GROUPS"):
            mod.GROUPS = OrderedDict()
        fn.n_quick = quick
        fn.n_thorough = thorough if thorough is not None else quick
        fn.exhaustive = exhaustive
        fn.required = required
        mod.GROUPS[fn.__name__] = fn
        return fn
    return deco


class Ctx:
    def __init__(self, pid, tier, seed, shard=0, nshards=1):
        self.pid, self.tier, self.seed = pid, tier, int(seed)
        self.shard, self.nshards = shard, nshards
        self.pnum = int(pid[1:])
        self.evals = Counter()        # monitor evaluations per class
        self.skipped = Counter()      # events/cases outside the preconditions
        self.cases = Counter()        # cases executed per group
        self.sigs = set()             # distinct non-trivial case signatures
        self.samples = OrderedDict()  # group -> [case descriptions]
        self.violations = []          # dicts (key, detail, group, idx, case)
        self.vcount = Counter()       # violations per key
        self.errors = []              # harness errors (-> inconclusive)
        self.worst = {}               # name -> [worst normalised error, tolerance]
        self.info = {}                # free-form evidence from monitors
        self.required = set()         # classes that must be observed
        self.on_begin = []            # callables run before every case (probe state resets)
        self.cur_group = None
        self.cur_idx = None
        self.cur_case = {}
        self.t0 = time.time()

    # ---------------------------------------------------------------- cases
    def case_rng(self, gname, idx):
        return np.random.default_rng([self.seed, self.pnum, zlib.crc32(gname.encode()), int(idx)])

    def begin(self, gname, idx):
        self.cur_group, self.cur_idx, self.cur_case = gname, idx, {}
        self.cases[gname] += 1
        for fn in self.on_begin:
            fn()

    def describe(self, **kw):
        """explicit description of the current case (goes to samples and witness files)"""
        self.cur_case.update(kw)

    def nontrivial(self, *sig):
        """declare the current case non-trivial; sig = hashable summary of configuration + data"""
        h = hashlib.blake2b(repr(jsonable(sig)).encode(), digest_size=8).digest()
        self.sigs.add(int.from_bytes(h, "big"))

    def end(self):
        lst = self.samples.setdefault(self.cur_group, [])
        if len(lst) < 2 and self.cur_case:
            lst.append({"group": self.cur_group, "idx": self.cur_idx, **jsonable(self.cur_case)})

    # ---------------------------------------------------------------- monitor API
    def ev(self, cls, n=1):
        self.evals[cls] += n

    def skip(self, why, n=1):
        self.skipped[why] += n

    def require(self, *classes):
        self.required.update(classes)

    def fail(self, key, detail=None, **extra):
        """record a violation of the property; key = mechanism key (never random values)"""
        self.vcount[key] += 1
        if self.vcount[key] <= 3:
            self.violations.append({
                "key": key, "detail": jsonable(detail), "group": self.cur_group, "idx": self.cur_idx,
                "case": jsonable({**self.cur_case, **extra})})

    def close(self, name, err, tol, key, detail=None, cls=None):
        """|err| (already normalised) must be <= tol; NaN is a failure. returns True when held"""
        self.ev(cls or name)
        err = float(np.max(np.abs(err))) if np.size(err) else 0.0
        w = self.worst.setdefault(name, [0.0, tol])
        if not (err <= w[0]):       # also catches NaN
            w[0] = err if np.isfinite(err) else float("inf")
        if not (err <= tol):
            self.fail(key, {"check": name, "error": err, "tol": tol, "more": detail})
            return False
        return True

    def true(self, name, cond, key, detail=None, cls=None):
        self.ev(cls or name)
        if not bool(cond):
            self.fail(key, {"check": name, "more": detail})
            return False
        return True

    def harness_error(self, what):
        if len(self.errors) < 20:
            self.errors.append({"group": self.cur_group, "idx": self.cur_idx, "what": what})

    # ---------------------------------------------------------------- results
    def partial(self):
        return {
            "evals": dict(self.evals), "skipped": dict(self.skipped), "cases": dict(self.cases),
            "sigs": sorted(self.sigs), "samples": self.samples, "violations": self.violations,
            "vcount": dict(self.vcount), "errors": self.errors, "worst": self.worst, "info": jsonable(self.info),
            "required": sorted(self.required), "wall_s": time.time() - self.t0,
        }


def _flowdyn_frame(tb):
    """innermost traceback frame that lies inside the flowdyn package, or None"""
    found = None
    for fr in traceback.extract_tb(tb):
        fn = fr.filename.replace("\\", "/")
        if "/flowdyn/" in fn and "/fdmon/" not in fn:
            found = fr
    return found


def _alarm(signum, frame):
    raise CaseTimeout()


def run_groups(ctx, groups, only_group=None, only_idx=None, case_timeout=300):
    """execute the cases of this shard"""
    signal.signal(signal.SIGALRM, _alarm)
    for gname, fn in groups.items():
        if only_group and gname != only_group:
            continue
        n = fn.n_quick if ctx.tier == "quick" else fn.n_thorough
        if callable(n):
            n = n(ctx)
        elif not fn.exhaustive:
            # sizing: the per-group counts in the property modules are base counts (~2-4 s per check on 8 cores);
            # quick runs 6x that (10-30 s), thorough 8x its own base (minutes on 16 cores).  VERIF_SCALE overrides.
            n = int(n * float(os.environ.get("VERIF_SCALE", 6 if ctx.tier == "quick" else 8)) * getattr(fn, "scale", 1.0))
        idxs = range(n) if only_idx is None else [only_idx]
        for idx in idxs:
            if only_idx is None and idx % ctx.nshards != ctx.shard:
                continue
            ctx.begin(gname, idx)
            rng = ctx.case_rng(gname, idx)
            signal.alarm(case_timeout)
            try:
                fn(ctx, rng, idx)
            except Skip as e:
                ctx.skip("case:" + (str(e) or "skip"))
            except np.linalg.LinAlgError:
                # singular/NaN implicit system: the generated state left the admissible set (e.g. negative depth at a face)
                ctx.skip("case:LinAlgError")
            except CaseTimeout:
                ctx.harness_error("case watchdog (%ds) fired" % case_timeout)
            except Budget as e:
                ctx.fail("budget/" + str(e), "step budget exhausted: time does not advance or solution is not finite")
            except Exception as e:  # noqa
                fr = _flowdyn_frame(e.__traceback__)
                tbtxt = "".join(traceback.format_exception(type(e), e, e.__traceback__)[-6:])
                if fr is not None:
                    ctx.fail("exception/%s/%s" % (type(e).__name__, fr.name), tbtxt)
                else:
                    ctx.harness_error(tbtxt)
            finally:
                signal.alarm(0)
            ctx.end()


# --------------------------------------------------------------------------- known findings
def load_known():
    p = VERIF / "known_findings.json"
    if not p.exists():
        return {"known": [], "fixed": []}
    return json.loads(p.read_text())


def match_known(pid, key, known):
    for k in known.get("known", []):
        if k["property"] == pid and (key == k["key"] or key.startswith(k["key"] + "/")):
            return k
    return None


# --------------------------------------------------------------------------- merge + evidence
RULES = {}
ASSUME = {}


def finish(pid, tier, seed, partials, rule, assumptions, exhaustive_groups, t0, inconclusive_reasons, out_evidence=True, single=False):
    """merge shard results, write evidence + witnesses, print verdict lines, return exit code"""
    evals, skipped, cases, vcount = Counter(), Counter(), Counter(), Counter()
    sigs, samples, violations, errors, worst, info, required = set(), [], [], [], {}, {}, set()
    for p in partials:
        evals.update(p["evals"]); skipped.update(p["skipped"]); cases.update(p["cases"]); vcount.update(p["vcount"])
        sigs.update(p["sigs"]); violations.extend(p["violations"]); errors.extend(p["errors"])
        required.update(p["required"])
        for g, lst in p["samples"].items():
            if sum(1 for s in samples if s["group"] == g) < 2:
                samples.extend(lst[:1])
        for k, (w, tol) in p["worst"].items():
            cur = worst.setdefault(k, [0.0, tol])
            if not (w <= cur[0]):
                cur[0] = w
        for k, v in p["info"].items():
            if isinstance(v, (int, float)) and not isinstance(v, bool):
                info[k] = info.get(k, 0) + v
            elif isinstance(v, dict):
                d = info.setdefault(k, {})
                for kk, vv in v.items():
                    d[kk] = d.get(kk, 0) + vv if isinstance(vv, (int, float)) and not isinstance(vv, bool) else vv
            else:
                info[k] = v
    reasons = list(inconclusive_reasons)
    for e in errors[:5]:
        reasons.append("harness error in %s[%s]: %s" % (e["group"], e["idx"], str(e["what"]).strip().splitlines()[-1][:200]))
    missing = sorted(c for c in required if evals.get(c, 0) == 0)
    if missing and not single:
        reasons.append("deciding monitor never evaluated for: " + ", ".join(missing))
    if sum(evals.values()) == 0:
        reasons.append("no monitor evaluation at all")

    known = load_known()
    # witnesses of runs against another tree (FLOWDYN_REPO: mutant self-tests) go to their own directory
    rdir = VERIF / "replay" / ("alt" if os.environ.get("FLOWDYN_REPO") else "")
    rdir.mkdir(parents=True, exist_ok=True)
    lines, nviol_new, seen = [], 0, set()
    for v in violations:
        if v["key"] in seen:
            continue
        seen.add(v["key"])
        kf = match_known(pid, v["key"], known)
        if kf:
            lines.append("KNOWN-FINDING: property=%s %s (%d occurrence(s), key=%s)" % (pid, kf["what"], vcount[v["key"]], v["key"]))
            continue
        nviol_new += 1
        slug = "".join(ch if ch.isalnum() else "_" for ch in v["key"])[:60]
        path = rdir / ("%s-%s-%s-%d.json" % (pid, slug, v["group"], v["idx"]))
        path.write_text(json.dumps({"property": pid, "tier": tier, "seed": seed, "group": v["group"], "idx": v["idx"],
                                    "key": v["key"], "detail": v["detail"], "case": v["case"],
                                    "occurrences": vcount[v["key"]],
                                    "replay": "./check %s --replay %s" % (pid, path)}, indent=1))
        lines.append("VIOLATION property=%s replay=%s" % (pid, path))
        lines.append("  detail: key=%s occurrences=%d" % (v["key"], vcount[v["key"]]))

    wall = time.time() - t0
    ev = {
        "property_id": pid, "tier": tier, "seed": int(seed), "level": "exploration",
        "coverage": {
            "evaluations": int(sum(evals.values())),
            "distinct_nontrivial": len(sigs),
            "rule": rule,
            "samples": samples[:12] if samples else [],
            "exhaustive": False,
            "exhaustive_groups": exhaustive_groups,
            "cases_per_group": dict(cases),
            "monitor_evaluations_per_class": dict(sorted(evals.items())),
            "skipped_outside_preconditions": dict(sorted(skipped.items())),
            "worst_error_vs_tolerance": {k: {"worst": w, "tol": t} for k, (w, t) in sorted(worst.items())},
            "observed": info,
            "violation_keys": dict(vcount),
            "inconclusive_reasons": reasons,
        },
        "assumptions": assumptions,
        "wall_s": round(wall, 2),
        "violations": int(sum(vcount.values())),
    }
    if out_evidence:
        (VERIF / "evidence").mkdir(exist_ok=True)
        (VERIF / "evidence" / (pid + ".json")).write_text(json.dumps(ev, indent=1))
    for ln in lines:
        print(ln)
    if nviol_new:
        code = EXIT_VIOLATED
    elif reasons:
        for r in reasons:
            print("INCONCLUSIVE property=%s reason=%s" % (pid, r))
        code = EXIT_INCONCLUSIVE
    else:
        code = EXIT_HELD
    nk = sum(1 for ln in lines if ln.startswith("KNOWN"))
    sys.stdout.flush()
    print("%s %s tier=%s seed=%s cases=%d evaluations=%d distinct_nontrivial=%d violations(new keys)=%d known=%d wall=%.1fs"
          % (pid, ["HELD", "VIOLATED", "INCONCLUSIVE"][code], tier, seed, sum(cases.values()), sum(evals.values()), len(sigs), nviol_new, nk, wall))
    return code
