"""Per-property text for MANIFEST.json (level claimed, trusted base, technique)."""
NOTE = ("Decides only the executions driven by the generated workloads (seeded, VERIF_SEED); trusted: numpy/scipy/LAPACK, "
        "CPython, the reference formulas written in the monitor, and that attribute replacement observes the same code users call.")
TEXT = {}


def _t(pid, level, technique, note=NOTE):
    TEXT[pid] = {"level": level, "technique": technique, "note": note}


_t("C01", "Every real rhs return (1D and 2D) observed during thousands of generated evaluations and short solves is judged by a "
          "telescoping-balance oracle using the real volumes and the face fluxes the call left behind; solves by integral drift. "
          "Exploration is the right level: the quantifier is infinite and the property is a per-execution arithmetic identity.",
   "runtime monitor (after-hook on rhs) + conservation oracle over generated workloads")
_t("C02", "Every numflux dispatch is observed; consistency, mirror symmetry (re-invocation of the same real function on the mirrored "
          "pair) and upwinding are asserted per face pair over all regimes incl. sonic/stagnation/1e6 ratios.",
   "online metamorphic monitor on numflux (hook) over generated state pairs and real face traffic")
_t("C03", "Uniform states with matching boundary pairs are pushed through the real rhs and all integrators; the residual must vanish to "
          "round-off (+ eps/M for total-pressure conditions) and the drift of a solve to round-off times the amplification the same "
          "solve applies to a 1e-12 perturbed twin (measured on demand).  Known finding D21: the pressure-extrapolating total-pressure "
          "closures make low-Mach uniform streams unstable fixed points.", "runtime oracle on rhs/solve results for generated fixed-point configurations, with a perturbed-twin amplification monitor")
_t("C05", "The real step() of each explicit integrator is driven with recording right-hand sides; the tableau it actually applies is "
          "extracted from the recorded stage arguments and checked against order conditions, stage abscissae, published stability "
          "polynomials and the SSP criterion; RK-ness re-checked on random nonlinear and real flowdyn right-hand sides.",
   "trace monitor on stage evaluations (recording rhs) + order-condition oracle")
_t("C06", "One real implicit step is compared with the monitor's own dense linear solve on the operator assembled from the real rhs; "
          "BDF2 recurrence, norm growth, order vs expm, Jacobian vs central differences.",
   "reference-model monitor (dense linear algebra on the operator extracted from the real rhs)")
_t("C07", "Each real solve/restart is recorded through probes on _solve/step/_parse_monitors/calc_timestep and an offline checker "
          "decides every clause of the bookkeeping contract on the recorded history.",
   "offline checker over recorded solve histories (event log from hooks)")
_t("C08", "Different call histories on the same/fresh integrator objects are executed and the captured trajectory states compared "
          "bitwise; monitor records are recomputed from the captured states.",
   "differential runtime monitoring of call histories (bitwise comparison of recorded trajectories)")
_t("C04", "Final fields of real solves on mesh sequences are compared with exact solutions (analytic cell averages; an independent exact "
          "Riemann solver) and the observed order / monotone error decrease is asserted; the packaged reference solutions are "
          "compared pointwise with independent solvers.", "runtime oracle on solve results over mesh sequences + independent exact solvers")
_t("C09", "Every outermost step() is observed, classified against the property's preconditions (recomputing the effective CFL) and "
          "max/min/TV monotonicity asserted on the before/after data.", "always-on runtime monitor on step() with precondition classifier")
_t("C10", "Every outermost step() is observed; where the preconditions hold (first order, Riemann flux, per/wall, uniform, SSP, CFL<=1/2, "
          "admissible, short of vacuum) the state after the step must be finite with positive density/pressure/depth.",
   "always-on runtime monitor on step() with precondition classifier")
_t("C11", "Face states left behind by the real rhs are read for constant and linear data; the operator extracted from the real rhs on unit "
          "impulses is compared with the kappa circulant; finite sub-spaces (n<=12, nx,ny<=5) enumerated completely.",
   "runtime observation of face states + reference stencil, exhaustive over small sizes")
_t("C12", "The real limiter functions are observed on direct hostile calls and on the pairs real MUSCL runs feed them; bounds asserted and "
          "the same function re-invoked for symmetric/odd/homogeneous twins.", "contract-style runtime monitor on the limiter functions (direct + wrapped traffic)")
_t("C13", "Each generated problem and its mirrored / unit-rescaled twin run through the same real code; results must be mirror images / "
          "rescaled, bit-identical where every arithmetic step is scale covariant.", "metamorphic twin executions (reflection, power-of-4 units)")
_t("C14", "Rolled twins on periodic meshes, exhaustive over small sizes and all shifts; 2D compared bitwise.", "metamorphic twin executions (cyclic shifts), exhaustive over small sizes")
_t("C15", "2D problems vs transposed/reflected twins and vs the real 1D operator row by row.", "metamorphic twin executions (2D vs 1D, transposition, reflection)")
_t("C16", "Every namedBC dispatch is observed and the returned state tested against the definitional identities; inverse construction "
          "gives the exact expected state.", "always-on runtime monitor on namedBC + inverse-construction workload")
_t("C17", "Round trips and every registered variable name are compared with textbook definitions over 12 decades of state values.",
   "runtime oracle on phydata/prim2cons/cons2prim with reference definitions")
_t("C18", "Every timestep/calc_timestep call is observed; the spectral radius is obtained numerically from the model's own consistent flux.",
   "always-on runtime monitor on timestep with finite-difference eigenvalue oracle")
_t("C19", "Twin discretisations with/without (counted) sources on the same field; difference of residuals must equal the sources.",
   "differential runtime monitoring of rhs (with/without sources) + call counting")
_t("C20", "Every outermost mesh constructor return is observed and judged; 2D connectivity cross-checked with the real first-order reconstruction.",
   "always-on runtime monitor on mesh constructors (structural invariants)")
