"""Per-property text for MANIFEST.json (level claimed, trusted base, technique)."""
NOTE = ("Decides only the executions driven by the generated workloads (seeded, VERIF_SEED); trusted: numpy/scipy/LAPACK, "
        "CPython, the reference formulas written in the monitor, and that attribute replacement observes the same code users call.")
TEXT = {}


def _t(pid, level, technique, note=NOTE):
    TEXT[pid] = {"level": level, "technique": technique, "note": note}


_t("C01", "Every real rhs return (1D and 2D) observed during thousands of generated evaluations and short solves is judged by a "
          "telescoping-balance oracle using the real volumes and the face fluxes the call left behind; solves by integral drift. "
          "Exploration is the right level: the quantifier is infinite and the property is a per-execution arithmetic identity.",
   "runtime monitor (after-hook on rhs) + conservation oracle over generated workloads")
_t("C02", "Every numflux dispatch is observed; consistency, mirror symmetry (re-invocation of the same real function on the mirrored "
          "pair) and upwinding are asserted per face pair over all regimes incl. sonic/stagnation/1e6 ratios.",
   "online metamorphic monitor on numflux (hook) over generated state pairs and real face traffic")
_t("C03", "Uniform states with matching boundary pairs are pushed through the real rhs and all integrators; residual/drift must vanish "
          "to conditioned round-off.", "runtime oracle on rhs/solve results for generated fixed-point configurations")
_t("C05", "The real step() of each explicit integrator is driven with recording right-hand sides; the tableau it actually applies is "
          "extracted from the recorded stage arguments and checked against order conditions, stage abscissae, published stability "
          "polynomials and the SSP criterion; RK-ness re-checked on random nonlinear and real flowdyn right-hand sides.",
   "trace monitor on stage evaluations (recording rhs) + order-condition oracle")
_t("C06", "One real implicit step is compared with the monitor's own dense linear solve on the operator assembled from the real rhs; "
          "BDF2 recurrence, norm growth, order vs expm, Jacobian vs central differences.",
   "reference-model monitor (dense linear algebra on the operator extracted from the real rhs)")
_t("C07", "Each real solve/restart is recorded through probes on _solve/step/_parse_monitors/calc_timestep and an offline checker "
          "decides every clause of the bookkeeping contract on the recorded history.",
   "offline checker over recorded solve histories (event log from hooks)")
_t("C08", "Different call histories on the same/fresh integrator objects are executed and the captured trajectory states compared "
          "bitwise; monitor records are recomputed from the captured states.",
   "differential runtime monitoring of call histories (bitwise comparison of recorded trajectories)")
