"""fdmon: runtime monitors for the flowdyn properties C01-C20 (see /verif/DESIGN.md)."""
