"""Instrumentation layer: wraps real flowdyn callables from the harness process (no source edit).

``hook(cls, name, after=..., before=...)`` replaces the attribute ``name`` on class (or module) ``cls``
by a transparent wrapper that forwards ``*args, **kwargs`` unchanged and calls the registered observers.
Observers never see references they could corrupt (they must copy what they keep), observer exceptions
are caught and reported as harness errors, and observers that re-invoke a probed function do so under
``quiet()`` so that the inner call is neither logged nor monitored again.
"""
import contextlib
import functools
import os

from . import core

_installed = {}     # (owner, name) -> (original, [observers])
_state = {"quiet": 0, "errors": []}
counters = {}


def enabled():
    return bool(os.environ.get(core.GUARD))


@contextlib.contextmanager
def quiet():
    _state["quiet"] += 1
    try:
        yield
    finally:
        _state["quiet"] -= 1


def errors():
    return _state["errors"]


def _report(e, where):
    import traceback
    if len(_state["errors"]) < 10:
        _state["errors"].append("%s: %s" % (where, "".join(traceback.format_exception(type(e), e, e.__traceback__)[-4:])))


def hook(owner, name, before=None, after=None, error=None):
    """install (or extend) a wrapper on owner.name.  before(args,kwargs)->token ; after(args,kwargs,result,token) ;
    error(args,kwargs,exception,token) when the real callable raises (to keep observer state balanced; the exception propagates)"""
    if not enabled():
        return
    key = (owner, name)
    if key not in _installed:
        orig = getattr(owner, name)      # inherited attribute: the wrapper is set on the subclass itself
        obs = []

        @functools.wraps(orig)
        def wrapper(*args, **kwargs):
            if _state["quiet"] or not obs:
                return orig(*args, **kwargs)
            counters[key] = counters.get(key, 0) + 1
            tokens = []
            for b, _, _ in obs:
                tok = None
                if b is not None:
                    try:
                        with quiet():
                            tok = b(args, kwargs)
                    except (core.Budget, core.CaseTimeout):
                        raise
                    except Exception as e:  # monitor bug: never let it reach the code under test
                        _report(e, "before %s.%s" % (getattr(owner, "__name__", owner), name))
                tokens.append(tok)
            try:
                result = orig(*args, **kwargs)
            except BaseException as exc:
                for (_, _, ef), tok in zip(obs, tokens):
                    if ef is not None:
                        try:
                            ef(args, kwargs, exc, tok)
                        except Exception as e:
                            _report(e, "error-observer %s.%s" % (getattr(owner, "__name__", owner), name))
                raise
            for (_, af, _), tok in zip(obs, tokens):
                if af is not None:
                    try:
                        with quiet():
                            af(args, kwargs, result, tok)
                    except (core.Budget, core.CaseTimeout):
                        raise
                    except Exception as e:
                        _report(e, "after %s.%s" % (getattr(owner, "__name__", owner), name))
            return result

        wrapper.__fdmon_orig__ = orig
        setattr(owner, name, wrapper)
        _installed[key] = (orig, obs)
    _installed[key][1].append((before, after, error))


def unhook_all():
    for (owner, name), (orig, obs) in list(_installed.items()):
        setattr(owner, name, orig)
    _installed.clear()


def subclasses(cls):
    out, todo = [], [cls]
    while todo:
        c = todo.pop()
        for s in c.__subclasses__():
            if s not in out:
                out.append(s)
                todo.append(s)
    return out


def defining_classes(base, meth):
    """all classes in the hierarchy of base (inclusive) that define meth themselves"""
    return [c for c in [base] + subclasses(base) if meth in c.__dict__]


# ----------------------------------------------------------------------------- event sampling (repository-traffic runs)
# In generated workloads every event is judged (rate 1).  When the repository's own test-suite is used as traffic the
# expensive monitors judge one event in `rate` (deterministic counter, never random), and count what they skipped.
rates = {}
_taken = {}


def take(key):
    k = rates.get(key, 1)
    if k <= 1:
        return True
    n = _taken.get(key, 0)
    _taken[key] = n + 1
    return n % k == 0
