"""Seeded generators of meshes, schemes, models, states and boundary conditions (hostile on purpose)."""
import numpy as np

import flowdyn.mesh as fmesh
import flowdyn.mesh2d as fmesh2d
import flowdyn.xnum as xnum
import flowdyn.integration as tn
import flowdyn.modeldisc as md
import flowdyn.field as ffield
import flowdyn.modelphy.convection as conv
import flowdyn.modelphy.burgers as burgers
import flowdyn.modelphy.euler as euler
import flowdyn.modelphy.shallowwater as shw

# ----------------------------------------------------------------------------- meshes
MESH_KINDS = ["uni", "refined", "morphed", "arb"]


def mesh1d(rng, kind=None, ncell=None, nmin=3, nmax=24, x0=True, big=0.0, lscale=0.0):
    """returns (mesh, description dict).  'arb' = arbitrary monotone faces through a piecewise-linear morphing.
    big: probability of a LARGE mesh (257...1500 cells): a size-dependent code path (another solver, a vectorised branch above a
    threshold) is only taken there"""
    nc = int(ncell if ncell is not None else rng.integers(nmin, nmax + 1))
    if big and ncell is None and rng.random() < big:
        nc = int(rng.integers(257, 1501))
    kind = kind or str(rng.choice(MESH_KINDS))
    L = float(np.round(rng.uniform(0.5, 5.0), 3))
    lfac = 1.0
    if lscale and rng.random() < lscale:
        # domains of micrometres ... thousands of kilometres: cell sizes far from 1 (absolute tolerances hidden in the code show here)
        lfac = float(10 ** rng.uniform(-9, 9))
        L = float(L * lfac)
    d = {"kind": kind, "ncell": nc, "length": L}
    if kind == "uni":
        xo = float(np.round(rng.uniform(-2, 2), 3)) * lfac if x0 else 0.0       # the origin scales with the domain (else its round-off swamps the cells)
        d["x0"] = xo
        r = rng.random()
        if r < 0.15:      # a uniform mesh built by the morphing class with its default (identity) morph
            d["class"] = "morphedmesh(identity)"
            return fmesh.morphedmesh(ncell=nc, length=L, x0=xo), d
        if r < 0.25:      # ... or by the refined class with ratio 1 (no origin argument)
            d["class"] = "refinedmesh(ratio=1)"; d["x0"] = 0.0
            return fmesh.refinedmesh(ncell=nc, length=L, ratio=1.0, nratioa=int(rng.integers(1, 4)), nratiob=int(rng.integers(1, 4))), d
        cls = fmesh.unimesh if r < 0.6 else fmesh.mesh1d          # alias and base class
        d["class"] = cls.__name__
        return cls(ncell=nc, length=L, x0=xo), d
    if kind == "refined":
        ratio = float(np.round(rng.uniform(0.3, 3.0), 3))
        if rng.random() < 0.1:
            ratio = float(10 ** rng.uniform(3, 6)) ** float(rng.choice([-1, 1]))       # strongly stretched: cell sizes 1e3...1e6 apart
        a, b = int(rng.integers(1, 4)), int(rng.integers(1, 4))
        d.update(ratio=ratio, nratioa=a, nratiob=b)
        return fmesh.refinedmesh(ncell=nc, length=L, ratio=ratio, nratioa=a, nratiob=b), d
    if kind == "morphed":
        amp = float(np.round(rng.uniform(0.0, 0.9), 3))
        if rng.random() < 0.2:
            amp = float(10 ** rng.uniform(-9, -4))        # NEARLY uniform: spacing varies by 1e-9...1e-4 relative (a mesh is uniform or it is not)
        d["morph"] = "x + %g*L/(2pi)*sin(2pi x/L)" % amp
        return fmesh.morphedmesh(ncell=nc, length=L, morph=lambda x: x + amp * L / (2 * np.pi) * np.sin(2 * np.pi * x / L)), d
    if kind == "arb":
        w = rng.uniform(0.15, 1.0, nc)
        if rng.random() < 0.3:
            w[int(rng.integers(nc))] *= 8.0      # one very large cell
        if rng.random() < 0.15:
            # sliver cells (wall-type stretching): one or a few cells 1e-3...1e-8 times thinner than the others
            for j in set(int(j) for j in rng.integers(0, nc, int(rng.integers(1, 3)))):
                w[j] *= float(10 ** rng.uniform(-8, -3))
            d["sliver_cells"] = True
        xf = np.concatenate([[0.0], np.cumsum(w)])
        xf *= L / xf[-1]
        xf[-1] = L
        base = np.linspace(0.0, L, nc + 1)
        d["faces"] = xf.copy()
        return fmesh.morphedmesh(ncell=nc, length=L, morph=lambda x: np.interp(x, base, xf)), d
    raise ValueError(kind)


def mesh_from_faces(xf):
    xf = np.asarray(xf, dtype=float)
    nc = xf.size - 1
    L = float(xf[-1] - xf[0])
    base = np.linspace(0.0, L, nc + 1)
    m = fmesh.morphedmesh(ncell=nc, length=L, morph=lambda x: np.interp(x, base, xf))
    m.xf = xf.copy()
    m.xc = m.calc_centers()
    return m


def use_on_stretched_twin_mesh(rng, model, mesh, num, flux, prim, bcL, bcR):
    """call history for scheme / model objects: they are used once on a NON-uniform mesh that has the same number of cells, the same
    length and the same origin as `mesh` (anything remembered under such a key -- distances, geometry -- would now be stale)"""
    from . import probes as _probes
    xf = np.asarray(mesh.xf, float)
    L = float(xf[-1] - xf[0])
    xi = (xf - xf[0]) / L
    faces = xf[0] + L * (xi + float(rng.uniform(0.2, 0.8)) * np.sin(2 * np.pi * xi) / (2 * np.pi))
    faces[0], faces[-1] = xf[0], xf[-1]
    m2 = fmesh.refinedmesh(ncell=mesh.ncell, length=L, ratio=float(rng.choice([2.0, 0.5, 3.0]))) if (rng.random() < 0.5 and xf[0] == 0.0 and mesh.ncell >= 2) else mesh_from_faces(faces)
    try:
        with _probes.quiet(), np.errstate(all="ignore"):
            d2 = md.fvm(model, m2, num, numflux=flux, bcL=bcL, bcR=bcR)
            d2.rhs(fdata_prim(model, m2, prim))
    except (np.linalg.LinAlgError, FloatingPointError, ValueError):
        pass


def mesh2d(rng, nmax=6, nmin=1, big=0.0):
    nx, ny = int(rng.integers(nmin, nmax + 1)), int(rng.integers(nmin, nmax + 1))
    if big and rng.random() < big:      # a large grid (several hundred cells)
        nx, ny = int(rng.integers(17, 41)), int(rng.integers(17, 41))
    lx, ly = float(np.round(rng.uniform(0.5, 4.0), 3)), float(np.round(rng.uniform(0.5, 4.0), 3))
    cls = fmesh2d.mesh2d if rng.random() < 0.6 else fmesh2d.unimesh
    return cls(nx, ny, lx, ly), {"nx": nx, "ny": ny, "lx": lx, "ly": ly, "class": cls.__name__}


# ----------------------------------------------------------------------------- reconstructions
LIMITERS = ["minmod", "vanalbada", "vanleer", "superbee"]
LINEAR_RECONS = ["extrapol1", "extrapol2", "extrapol3", "centered", "fromm", "quick", "extrapolk"]
ALL_RECONS = LINEAR_RECONS + ["muscl_" + l for l in LIMITERS] + ["muscl_user_koren", "muscl_user_firstarg"]      # + user-supplied asymmetric limiters
KAPPA = {"extrapol2": -1.0, "fromm": 0.0, "quick": 0.5, "extrapol3": 1.0 / 3.0, "centered": 1.0}


def recon(name, rng=None, k=None):
    """returns (object, full name).  extrapolk draws k from rng (or uses k).  A decoy scheme object of the same family (other k /
    other limiter) is sometimes built right after it: settings kept on the class instead of the instance would show"""
    obj, full = _recon(name, rng, k)
    if rng is not None and rng.random() < 0.2:
        xnum.extrapolk(float(rng.choice([-0.9, 0.123, 0.77])))
        xnum.muscl(getattr(xnum, str(rng.choice(LIMITERS))))
        xnum.extrapol2dk(float(rng.choice([-0.9, 0.123, 0.77])))
    return obj, full


def koren(a, b):
    """Koren's limiter written as a limited slope of (a, b): NOT symmetric in its arguments (third-order weight on the second one).  A user
    may hand any such function to muscl(); the library documents that the first argument is the gradient of the face extrapolated to"""
    a, b = np.asarray(a, float), np.asarray(b, float)
    return np.where(a * b <= 0.0, 0.0, np.sign(a) * np.minimum(np.minimum(2 * np.abs(a), (np.abs(a) + 2 * np.abs(b)) / 3.0), 2 * np.abs(b)))


def firstarg(a, b):
    """'limiter' that returns its first argument (unlimited one-sided slope): as asymmetric as can be"""
    return np.asarray(a, float) + 0.0 * np.asarray(b, float)


USER_LIMITERS = {"muscl_user_koren": koren, "muscl_user_firstarg": firstarg}


def _recon(name, rng=None, k=None):
    if name in USER_LIMITERS:
        return xnum.muscl(USER_LIMITERS[name]), name
    if name == "extrapolk":
        if k is None:
            k = float(np.round(rng.uniform(-1.0, 1.0), 3))
        return xnum.extrapolk(k), "extrapolk(%g)" % k
    if name.startswith("muscl_"):
        return xnum.muscl(getattr(xnum, name[6:])), name
    if name == "muscl":
        return xnum.muscl(), "muscl_minmod"
    return getattr(xnum, name)(), name


def any_recon(rng, pool=ALL_RECONS):
    return recon(str(rng.choice(pool)), rng)


# ----------------------------------------------------------------------------- integrators
EXPLICIT = ["explicit", "forwardeuler", "rk2", "rk2_heun", "rk3_heun", "rk3ssp", "rk4", "lsrk25bb", "lsrk26bb", "lsrk4"]
IMPLICIT = ["implicit", "backwardeuler", "trapezoidal", "cranknicolson", "gear"]
ALL_INTEG = EXPLICIT + IMPLICIT
SSP = ["explicit", "forwardeuler", "rk2_heun", "rk3ssp"]
# linear-stability limits (CFL, first-order upwind convection) used to stay inside stable regimes
NSTAGE = {"explicit": 1, "forwardeuler": 1, "rk2": 2, "rk2_heun": 2, "rk3_heun": 3, "rk3ssp": 3, "rk4": 4,
          "lsrk25bb": 5, "lsrk26bb": 6, "lsrk4": 4, "implicit": 1, "backwardeuler": 1, "trapezoidal": 1,
          "cranknicolson": 1, "gear": 1}


def integ(name):
    return getattr(tn, name)


# ----------------------------------------------------------------------------- states
def smooth(rng, x, L, lo, hi, nmode=2):
    """smooth periodic positive-range profile on x in [lo, hi]"""
    y = np.zeros_like(x)
    for m in range(1, nmode + 1):
        y += rng.uniform(-1, 1) / m * np.sin(2 * np.pi * m * (x - x[0]) / L + rng.uniform(0, 2 * np.pi))
    y = (y - y.min()) / max(y.max() - y.min(), 1e-300)
    return lo + (hi - lo) * y


def scalar_data(rng, n, kind=None):
    kind = kind or str(rng.choice(["random", "step", "sawtooth", "square", "spike", "signchange", "antisym"]))
    if kind == "random":
        q = rng.uniform(-1, 1, n)
    elif kind == "step":
        q = np.where(np.arange(n) < rng.integers(1, max(2, n)), rng.uniform(-2, 2), rng.uniform(-2, 2)) * np.ones(n)
    elif kind == "sawtooth":
        q = (np.arange(n) % max(2, int(rng.integers(2, 6)))) * rng.uniform(0.1, 1.0) + rng.uniform(-1, 1)
    elif kind == "square":
        q = np.zeros(n) + rng.uniform(-1, 1)
        i0 = int(rng.integers(0, n)); w = int(rng.integers(1, max(2, n // 2 + 1)))
        q[np.arange(i0, i0 + w) % n] += rng.uniform(0.2, 2.0) * rng.choice([-1, 1])
    elif kind == "spike":
        q = np.zeros(n) + rng.uniform(-1, 1)
        q[int(rng.integers(0, n))] += rng.uniform(0.5, 5.0) * rng.choice([-1, 1])
    elif kind == "signchange":
        q = rng.uniform(0.1, 1.5, n) * np.where(np.arange(n) < n // 2, 1.0, -1.0) * rng.choice([-1, 1])
    elif kind == "smooth":
        x = (np.arange(n) + 0.5) / n
        q = smooth(rng, x, 1.0, -1.0, 1.0) * rng.uniform(0.2, 2.0) + rng.uniform(-1, 1)
    elif kind == "antisym":
        h = rng.uniform(0.1, 1.5, (n + 1) // 2)
        q = np.concatenate([h[: n // 2], np.zeros(n % 2), -h[: n // 2][::-1]]) * rng.choice([-1, 1])
    else:
        raise ValueError(kind)
    return np.asarray(q, dtype=float), kind


def euler_prim(rng, n, kind=None, mach_max=2.5, ratio=10.0):
    """primitive Euler data (rho, u, p) of n cells"""
    kind = kind or str(rng.choice(["random", "step", "smooth", "uniform", "stream", "acoustic", "stream-with-exceptions"]))
    r0, p0 = 10 ** rng.uniform(-1, 1), 10 ** rng.uniform(-1, 1)
    if kind == "stream-with-exceptions":
        # a one-directional (mostly supersonic) stream in which ONE or TWO cells are different: subsonic, at rest or reversed --
        # placed anywhere, in particular in the first or last cell (a whole-array test "all faces upwind" is almost true)
        (rho, u, p), _ = euler_prim(rng, n, "stream", mach_max=mach_max, ratio=ratio)
        for j in set([int(rng.choice([0, n - 1, int(rng.integers(n))]))] + ([int(rng.integers(n))] if rng.random() < 0.4 else [])):
            u[j] = u[j] * float(rng.choice([0.7, 0.6, 0.5, 0.0, -0.6, 0.3]))
        return [np.asarray(rho, float), np.asarray(u, float), np.asarray(p, float)], kind
    if kind == "acoustic":
        # nearly at rest: velocities of 1e-14...1e-4 sound speeds and equally small density/pressure disturbances (linear acoustics)
        eps = float(10 ** rng.uniform(-14, -4))
        rho = r0 * (1 + eps * rng.uniform(-1, 1, n)); p = p0 * (1 + eps * rng.uniform(-1, 1, n))
        u = eps * rng.uniform(-1, 1, n) * np.sqrt(1.4 * p0 / r0)
    elif kind == "stream":
        # one stream direction everywhere (all cells super- or all subsonic, to the left or to the right) with small smooth variations
        x = (np.arange(n) + 0.5) / n
        rho = smooth(rng, x, 1.0, r0, r0 * 1.1); p = smooth(rng, x, 1.0, p0, p0 * 1.1)
        m0 = float(rng.uniform(1.3, max(1.4, mach_max)) if rng.random() < 0.6 else rng.uniform(0.1, 0.8)) * float(rng.choice([-1.0, 1.0]))
        u = m0 * np.sqrt(1.4 * p0 / r0) * smooth(rng, x, 1.0, 0.95, 1.05)
    elif kind == "uniform":
        rho, p = np.full(n, r0), np.full(n, p0)
        u = np.full(n, rng.uniform(-mach_max, mach_max) * np.sqrt(1.4 * p0 / r0))
    elif kind == "random":
        rho = r0 * ratio ** rng.uniform(-0.5, 0.5, n)
        p = p0 * ratio ** rng.uniform(-0.5, 0.5, n)
        u = rng.uniform(-mach_max, mach_max, n) * np.sqrt(1.4 * p / rho)
    elif kind == "step":
        i0 = int(rng.integers(1, max(2, n)))
        left = np.arange(n) < i0
        rho = np.where(left, r0, r0 * ratio ** rng.uniform(-1, 1))
        p = np.where(left, p0, p0 * ratio ** rng.uniform(-1, 1))
        c = np.sqrt(1.4 * p / rho)
        u = np.where(left, rng.uniform(-mach_max, mach_max), rng.uniform(-mach_max, mach_max)) * c
    elif kind == "smooth":
        x = (np.arange(n) + 0.5) / n
        rho = smooth(rng, x, 1.0, r0, r0 * rng.uniform(1.05, ratio ** 0.5))
        p = smooth(rng, x, 1.0, p0, p0 * rng.uniform(1.05, ratio ** 0.5))
        u = smooth(rng, x, 1.0, -1.0, 1.0) * rng.uniform(0, mach_max) * np.sqrt(1.4 * p0 / r0)
    else:
        raise ValueError(kind)
    return [np.asarray(rho, float), np.asarray(u, float), np.asarray(p, float)], kind


def sw_prim(rng, n, kind=None, froude_max=2.5, ratio=10.0, g=9.81):
    kind = kind or str(rng.choice(["random", "step", "smooth", "stream", "stream-with-exceptions"]))
    h0 = 10 ** rng.uniform(-1, 1)
    if kind == "stream-with-exceptions":
        (h, u), _ = sw_prim(rng, n, "stream", froude_max=froude_max, ratio=ratio, g=g)
        for j in set([int(rng.choice([0, n - 1, int(rng.integers(n))]))] + ([int(rng.integers(n))] if rng.random() < 0.4 else [])):
            u[j] = u[j] * float(rng.choice([0.7, 0.6, 0.5, 0.0, -0.6, 0.3]))
        return [np.asarray(h, float), np.asarray(u, float)], kind
    if kind == "stream":
        x = (np.arange(n) + 0.5) / n
        h = smooth(rng, x, 1.0, h0, h0 * 1.1)
        f0 = float(rng.uniform(1.3, max(1.4, froude_max)) if rng.random() < 0.6 else rng.uniform(0.1, 0.8)) * float(rng.choice([-1.0, 1.0]))
        u = f0 * np.sqrt(g * h0) * smooth(rng, x, 1.0, 0.95, 1.05)
    elif kind == "random":
        h = h0 * ratio ** rng.uniform(-0.5, 0.5, n)
        u = rng.uniform(-froude_max, froude_max, n) * np.sqrt(g * h)
    elif kind == "step":
        left = np.arange(n) < int(rng.integers(1, max(2, n)))
        h = np.where(left, h0, h0 * ratio ** rng.uniform(-1, 1))
        u = np.where(left, rng.uniform(-froude_max, froude_max), rng.uniform(-froude_max, froude_max)) * np.sqrt(g * h)
    else:
        x = (np.arange(n) + 0.5) / n
        h = smooth(rng, x, 1.0, h0, h0 * rng.uniform(1.05, ratio ** 0.5))
        u = smooth(rng, x, 1.0, -1.0, 1.0) * rng.uniform(0, froude_max) * np.sqrt(g * h0)
    return [np.asarray(h, float), np.asarray(u, float)], kind


def faces_admissible(disc, mname):
    """after an rhs call: the reconstructed face states are admissible (density and pressure / depth positive on both sides of every face).
    An unlimited reconstruction of rough data can produce a face density of -1e-3: the fluxes then divide by it, and round-off
    differences between twins are amplified without bound (not a symmetry defect)"""
    if mname in ("euler1d", "nozzle"):
        idx = (0, 2)
    elif mname == "shallowwater":
        idx = (0,)
    else:
        return True
    try:
        return all(bool(np.all(np.asarray(side[i], float) > 0)) for side in (disc.pL, disc.pR) for i in idx)
    except Exception:   # noqa
        return True


def exotic_layout(f, how):
    """the same field values in arrays with another MEMORY LAYOUT (what a user gets from a transposed file, a slice of a larger buffer,
    or the library's own expansion of one number per variable): how = 1 Fortran-ordered vector components, 2 strided views (every second
    element of a buffer), 3 both.  Values, shapes and dtypes are unchanged"""
    for i, d in enumerate(f.data):
        d = np.asarray(d)
        if d.ndim == 2 and how in (1, 3):
            f.data[i] = np.asfortranarray(d)
        elif d.ndim == 1 and how in (2, 3) and d.dtype.kind == "f":
            buf = np.zeros(2 * d.size + 1, dtype=d.dtype)
            buf[1::2] = d
            f.data[i] = buf[1::2]
    return f


def refused_integer_field(exc):
    """the unchanged library stops the time integration of an integer-typed field with numpy's casting error (add_res does
    `data += dt*residual`): loud, outside the properties -- such a case is skipped; a run that goes through is judged"""
    return isinstance(exc, TypeError) and "Cannot cast ufunc" in str(exc)


def fdata_prim(model, mesh, prim):
    """field from primitive data through the real prim2cons (integer-typed data -- see int_prim -- stay integer-typed)"""
    return ffield.fdata(model, mesh, model.prim2cons([np.array(p) if np.asarray(p).dtype.kind in "iu" else np.array(p, dtype=float) for p in prim]))


def int_prim(rng, mname, n):
    """primitive data given as INTEGERS (integer arrays, as a user typing 1 instead of 1. produces them): flowdyn.field keeps
    the type it is given, so the conserved data are integer arrays too; only operator-level checks use these (time integration
    of integer-typed fields stops with numpy's casting error in the unchanged library: loud, and not one of the properties)"""
    uni = rng.random() < 0.4
    def ints(lo, hi):
        v = rng.integers(lo, hi + 1, size=1 if uni else n)
        return np.array(np.broadcast_to(v, (n,)), dtype=np.int64 if rng.random() < 0.7 else np.int32)
    if mname in ("convection", "burgers"):
        q = ints(-4, 4)
        if not np.any(q != 0):
            q = q + 1
        return [q], "int"
    if mname == "shallowwater":
        return [ints(1, 5), ints(-3, 3)], "int"
    return [ints(1, 5), ints(-3, 3), ints(1, 6)], "int"


# ----------------------------------------------------------------------------- 1D scenarios
FLUXES = {
    "convection": [None],
    "burgers": [None],
    "shallowwater": ["centered", "rusanov", "hll", None, "centeredflux"],          # None = the model's default flux (rusanov / hllc)
    "euler1d": ["centered", "centeredmassflow", "hlle", "hllc", None, "centeredflux"],   # 'centeredflux' = registered alias of 'centered'
    "nozzle": ["centered", "centeredmassflow", "hlle", "hllc", None, "centeredflux"],
}
UPWIND_FLUXES = {"convection": [None], "burgers": [None], "shallowwater": ["rusanov", "hll", None],
                 "euler1d": ["hlle", "hllc", None], "nozzle": ["hlle", "hllc", None]}
MODELS1D = list(FLUXES)


def totals(rho, u, p, gam):
    """ptot, rttot (r*Ttot) of a state -- textbook isentropic relations"""
    m2 = u * u / (gam * p / rho)
    f = 1.0 + 0.5 * (gam - 1.0) * m2
    return p * f ** (gam / (gam - 1.0)), p / rho * f


class Scn:
    """one fully built 1D problem: model, mesh, scheme, boundary conditions, discretisation, field"""
    def desc(self):
        return {"model": self.mname, "params": self.mparams, "flux": self.flux, "recon": self.rname, "mesh": self.mdesc,
                "bcL": self.bcL, "bcR": self.bcR, "prim": self.prim, "datakind": self.dkind,
                "objects_used_before_on_another_mesh": getattr(self, "warm", False), "history_after_build": getattr(self, "history", "fresh")}

    def cls(self):
        return "%s/%s" % (self.mname, self.flux)


def decoy_models(rng, family=None):
    """build and drop OTHER model objects (other parameters) after the object under test was built and before it is used: parameters
    kept on the class (shared between instances) instead of the instance would now be those of the decoy"""
    out = []
    for _ in range(int(rng.integers(1, 3))):
        k = int(rng.integers(6))
        gam = float(rng.choice([1.15, 1.3, 1.67, 1.9]))
        if k == 0:
            out.append(euler.euler1d(gamma=gam))
        elif k == 1:
            out.append(euler.euler2d(gamma=gam))
        elif k == 2:
            out.append(euler.nozzle(lambda x: 2.0 + 0.3 * x, gamma=gam, source=[None, (lambda x, q: 0 * x + 1.0), None]))
        elif k == 3:
            out.append(shw.shallowwater1d(g=float(rng.choice([0.5, 3.3, 25.0])), source=[(lambda x, q: 0 * x + 1.0), None]))
        elif k == 4:
            out.append(conv.model(float(rng.choice([-7.0, 0.01, 13.0]))))
        else:
            out.append(burgers.model())
    return out


def foreign_field(rng, model, mesh, f):
    """the same data in a field object that carries ANOTHER model object of the same family with other parameters (an initial field
    built once and reused in a parameter sweep): the discretisation's own model is the one that counts"""
    gam = float(rng.choice([1.15, 1.3, 1.67, 1.9]))
    eq = getattr(model, "equation", None)
    if isinstance(model, euler.euler2d):
        other = euler.euler2d(gamma=gam)
    elif isinstance(model, euler.nozzle):
        other = euler.nozzle(lambda x: 2.0 + 0.3 * x, gamma=gam)
    elif eq == "euler":
        other = euler.euler1d(gamma=gam)
    elif eq == "shallowwater":
        other = shw.shallowwater1d(g=float(rng.choice([0.5, 3.3, 25.0])))
    elif eq == "convection":
        other = conv.model(float(rng.choice([-7.0, 0.01, 13.0])))
    else:
        other = burgers.model()
    return ffield.fdata(other, mesh, [np.array(d, copy=True) for d in f.data], t=f.time)


def maybe_decoy(rng, prob=0.3):
    """to be called right after building the object(s) under test directly (not through make_model)"""
    if rng.random() < prob:
        decoy_models(rng)
        return True
    return False


def make_model(mname, rng, source=None, gamma=None, g=None, a=None, section=None, decoy=None):
    m, d = _make_model(mname, rng, source=source, gamma=gamma, g=g, a=a, section=section)
    if (rng.random() < 0.3) if decoy is None else decoy:
        decoy_models(rng)
        d = dict(d, other_models_built_after_this_one=True)
    return m, d


def _make_model(mname, rng, source=None, gamma=None, g=None, a=None, section=None):
    if mname == "convection":
        if a is None:
            a = float(np.round(rng.uniform(0.2, 3.0), 3) * rng.choice([-1, 1]))
            if rng.random() < 0.15:
                a = float(10 ** rng.uniform(-9, 6) * rng.choice([-1, 1]))      # the SIZE of the convection speed is arbitrary too (units)
        a = float(a)
        return conv.model(a), {"convcoef": a}
    if mname == "burgers":
        return burgers.model(), {}
    if mname == "shallowwater":
        g = float(g if g is not None else rng.choice([9.81, 1.0, 1.0, float(np.round(rng.uniform(1, 20), 3)), float(np.round(10 ** rng.uniform(-2, 2), 3))]))
        return shw.shallowwater1d(g=g, source=source), {"g": g}
    gam = float(gamma if gamma is not None else rng.choice([1.4, 1.4, 5.0 / 3.0, 1.2, float(np.round(rng.uniform(1.05, 2.0), 3))]))
    if mname == "euler1d":
        cls = euler.euler1d if rng.random() < 0.7 else euler.model          # backward-compatibility alias class
        return cls(gamma=gam, source=source), {"gamma": gam, "class": cls.__name__}
    if mname == "nozzle":
        sec = section if section is not None else (lambda x: 1.0 + 0.0 * x)
        return euler.nozzle(sec, gamma=gam, source=source), {"gamma": gam, "section": getattr(sec, "desc", "const 1")}
    raise ValueError(mname)


def prim_for(mname, model, rng, n, dkind=None, mach_max=2.0, ratio=10.0):
    if mname in ("convection", "burgers") and dkind in ("stream", "stream-with-exceptions"):
        dkind = "smooth"
    if mname in ("convection",):
        q, k = scalar_data(rng, n, dkind)
        return [q], k
    if mname == "burgers":
        q, k = scalar_data(rng, n, dkind)
        if not np.any(q != 0.0):
            q = q + 0.5
        return [q], k
    if mname == "shallowwater":
        return sw_prim(rng, n, dkind if dkind in ("random", "step", "smooth", "stream", "stream-with-exceptions") else None, froude_max=mach_max, ratio=ratio, g=model.g)
    return euler_prim(rng, n, dkind if dkind in ("random", "step", "smooth", "uniform", "stream", "acoustic", "stream-with-exceptions") else None, mach_max=mach_max, ratio=ratio)


def open_bc(mname, model, rng, prim, side):
    """a (non periodic, non wall) boundary condition dictionary for one side with finite parameters"""
    i = 0 if side == "L" else -1
    if mname in ("convection", "burgers"):
        return {"type": "dirichlet", "prim": [float(prim[0][i] + rng.uniform(-0.5, 0.5))]}
    if mname == "shallowwater":
        t = str(rng.choice(["inf", "dirichlet", "sym"]))
        if t == "dirichlet":
            return {"type": t, "prim": [float(prim[0][i] * rng.uniform(0.7, 1.4)), float(prim[1][i] + rng.uniform(-0.3, 0.3))]}
        return {"type": t}
    gam = model.gamma
    rho, u, p = (float(prim[k][i]) for k in range(3))
    t = str(rng.choice(["dirichlet", "sym", "insub", "insub_cbc", "insup", "outsub", "outsub_prim", "outsub_qtot",
                        "outsub_rh", "outsub_nrcbc", "outsup"]))
    if t == "dirichlet":
        return {"type": t, "prim": [rho * rng.uniform(0.7, 1.4), u + rng.uniform(-0.3, 0.3) * np.sqrt(gam * p / rho), p * rng.uniform(0.7, 1.4)]}
    if t in ("insub", "insub_cbc", "insup"):
        mref = rng.uniform(0.1, 0.8) if t != "insup" else rng.uniform(1.2, 2.5)
        pt, rtt = totals(rho, mref * np.sqrt(gam * p / rho), p, gam)
        d = {"type": t, "ptot": float(pt * rng.uniform(1.0, 1.2)), "rttot": float(rtt * rng.uniform(0.9, 1.1))}
        if t == "insup":
            d["p"] = float(p * rng.uniform(0.8, 1.2))
        return d
    if t in ("outsub", "outsub_prim", "outsub_qtot", "outsub_rh", "outsub_nrcbc"):
        return {"type": t, "p": float(p * rng.uniform(0.8, 1.2))}
    return {"type": t}


def _warm_up(rng, s, bc, mach_max, ratio, use=True):
    """use the SAME model and reconstruction objects on another mesh (same number of cells, other geometry, other data and boundary
    parameters) before the real problem is built: state remembered on these objects from a previous use must not matter"""
    mesh2, _ = mesh1d(rng, ncell=s.mesh.ncell)
    prim2, _ = prim_for(s.mname, s.model, rng, mesh2.ncell, None, mach_max=mach_max, ratio=min(ratio, 10.0))
    if s.bckind == "per":
        b2L = b2R = {"type": "per"}
    elif s.bckind == "sym":
        b2L, b2R = {"type": "sym"}, {"type": "sym"}
    else:
        b2L, b2R = open_bc(s.mname, s.model, rng, prim2, "L"), open_bc(s.mname, s.model, rng, prim2, "R")
    d2 = md.fvm(s.model, mesh2, s.num, numflux=s.flux, bcL=b2L, bcR=b2R)
    f2 = fdata_prim(s.model, mesh2, prim2)
    if not use:
        return
    try:
        d2.rhs(f2)
        d2.calc_timestep(f2, 0.5)
        for name in list(s.model.list_var())[:3]:
            f2.phydata(name)
    except np.linalg.LinAlgError:
        pass


def any_section(rng):
    """a positive nozzle section law defined for every x: smooth, or STEEP (the section changes by more than itself across one cell of an
    ordinary mesh: sudden expansion, sharp throat, fast growth) -- for checks in which the section must not matter at all"""
    a = float(np.round(10 ** rng.uniform(-1, 1), 3)); b = float(np.round(rng.uniform(0.1, 0.95), 2))
    x1 = float(np.round(rng.uniform(-3, 8), 2)); w = float(10 ** rng.uniform(-3, 0.5))
    k = str(rng.choice(["tanh-step", "jump", "throat", "quadratic", "exp"]))
    if k == "tanh-step":
        f = lambda x: a * (1.0 + b * np.tanh((np.asarray(x, float) - x1) / w))
    elif k == "jump":
        f = lambda x: np.where(np.asarray(x, float) < x1, a, a * (1.0 + 10 * b)) + 0.0 * np.asarray(x, float)
    elif k == "throat":
        f = lambda x: a * (1.0 - b * np.exp(-((np.asarray(x, float) - x1) / w) ** 2))
    elif k == "quadratic":
        f = lambda x: a * (1.0 + ((np.asarray(x, float) - x1) / w) ** 2)
    else:
        f = lambda x: a * np.exp(np.clip((np.asarray(x, float) - x1) / max(w, 0.05), -50, 50))
    f.desc = "%s(a=%g,b=%g,x1=%g,w=%.3g)" % (k, a, b, x1, w)
    return f


def scenario1d(rng, models=MODELS1D, bc=None, recons=ALL_RECONS, meshkinds=MESH_KINDS, ncell=None, nmin=3, nmax=24,
               dkind=None, fluxes=None, mach_max=2.0, ratio=10.0, source=None, mname=None, section=None, warm=None, intdata=0.0, big=0.0, lscale=0.0,
               anysection=0.0):
    s = Scn()
    s.mname = mname or str(rng.choice(models))
    if anysection and s.mname == "nozzle" and section is None and rng.random() < anysection:
        section = any_section(rng)
    s.model, s.mparams = make_model(s.mname, rng, source=source, section=section)
    fl = (fluxes or FLUXES)[s.mname]
    s.flux = fl[int(rng.integers(len(fl)))]
    s.mesh, s.mdesc = mesh1d(rng, kind=str(rng.choice(meshkinds)), ncell=ncell, nmin=nmin, nmax=nmax, big=big, lscale=lscale)
    if ratio > 100.0:   # huge jumps: unlimited extrapolation would leave the admissible set (negative face pressures)
        recons = [r for r in recons if r == "extrapol1" or r.startswith("muscl")] or ["extrapol1"]
    s.num, s.rname = recon(str(rng.choice(recons)), rng)
    n = s.mesh.ncell
    s.prim, s.dkind = prim_for(s.mname, s.model, rng, n, dkind, mach_max=mach_max, ratio=ratio)
    if intdata and rng.random() < intdata:
        s.prim, s.dkind = int_prim(rng, s.mname, n)
    s.bckind = bc or str(rng.choice(["per", "sym", "open"]))
    if s.bckind == "sym" and s.mname in ("convection", "burgers"):
        s.bckind = "open"
    if s.bckind == "per":
        s.bcL = s.bcR = {"type": "per"}
    elif s.bckind == "sym":
        s.bcL, s.bcR = {"type": "sym"}, {"type": "sym"}
    else:
        s.bcL, s.bcR = open_bc(s.mname, s.model, rng, s.prim, "L"), open_bc(s.mname, s.model, rng, s.prim, "R")
    s.warm = bool(rng.random() < 0.25) if warm is None else bool(warm)
    if s.warm and source is None and section is None:
        _warm_up(rng, s, bc, mach_max, ratio)
    dcls = md.fvm if rng.random() < 0.7 else md.fvm1d                     # alias and base class
    s.disc = dcls(s.model, s.mesh, s.num, numflux=s.flux, bcL=s.bcL, bcR=s.bcR)
    if rng.random() < 0.3 and all(np.asarray(p).dtype.kind == "f" for p in s.prim):
        s.field = s.disc.fdata_fromprim([np.array(p) for p in s.prim])         # the discretisation's own constructor (same field)
    else:
        s.field = fdata_prim(s.model, s.mesh, s.prim)
    if rng.random() < 0.08:
        exotic_layout(s.field, 2)          # strided views instead of contiguous arrays (same values)
    s.history = "fresh"
    if warm is None and rng.random() < 0.12:
        # call history AFTER the problem was built: it is evaluated once, then the SAME model and scheme objects are handed to another
        # discretisation on another mesh (built only, or built and used) -- what the first discretisation computes afterwards must
        # still be about ITS mesh (memoised mesh-dependent terms of the model: nozzle sections, cached geometry)
        s.history = "used once, then another discretisation of the same model %s" % ("built and used" if rng.random() < 0.5 else "built")
        from . import probes as _probes
        try:
            with _probes.quiet(), np.errstate(all="ignore"):
                s.disc.rhs(s.field)
        except (np.linalg.LinAlgError, FloatingPointError):
            pass
        _warm_up(rng, s, bc, mach_max, ratio, use=s.history.endswith("used"))
    return s


# ----------------------------------------------------------------------------- explicit problem specs (for twins)
class Spec:
    """fully explicit 1D problem: everything needed to (re)build it, so that transformed twins can be derived"""
    def __init__(self, mname, mparams, faces, rname, flux, bcL, bcR, prim, section=None, k=None):
        self.mname, self.mparams, self.faces, self.rname, self.flux = mname, dict(mparams), np.array(faces, float), rname, flux
        self.bcL, self.bcR, self.prim, self.section = dict(bcL), dict(bcR), [np.array(p, float) for p in prim], section

    def build(self, num=None, model=None):
        """num / model: objects to REUSE (a scheme or model object that another problem - the twin - has already used)"""
        if model is not None:
            mesh = mesh_from_faces(self.faces)
            num_ = num
            if num_ is None:
                num_ = xnum.extrapolk(float(self.rname[10:-1])) if self.rname.startswith("extrapolk(") else recon(self.rname)[0]
            disc = md.fvm(model, mesh, num_, numflux=self.flux, bcL=self.bcL, bcR=self.bcR)
            return model, mesh, disc, fdata_prim(model, mesh, self.prim)
        if self.mname == "convection":
            model = conv.model(self.mparams["convcoef"])
        elif self.mname == "burgers":
            model = burgers.model()
        elif self.mname == "shallowwater":
            model = shw.shallowwater1d(g=self.mparams["g"])
        elif self.mname == "euler1d":
            model = euler.euler1d(gamma=self.mparams["gamma"])
        else:
            model = euler.nozzle(self.section, gamma=self.mparams["gamma"])
        mesh = mesh_from_faces(self.faces)
        if num is not None:
            pass
        elif self.rname.startswith("extrapolk("):
            num = xnum.extrapolk(float(self.rname[10:-1]))
        else:
            num, _ = recon(self.rname)
        disc = md.fvm(model, mesh, num, numflux=self.flux, bcL=self.bcL, bcR=self.bcR)
        f = fdata_prim(model, mesh, self.prim)
        return model, mesh, disc, f

    def desc(self):
        return {"model": self.mname, "params": self.mparams, "faces": self.faces, "recon": self.rname, "flux": self.flux,
                "bcL": self.bcL, "bcR": self.bcR, "prim": self.prim, "section": getattr(self.section, "desc", None)}


def spec_from_scn(s, section=None):
    return Spec(s.mname, s.mparams, s.mesh.xf, s.rname, s.flux, s.bcL, s.bcR, s.prim, section=section)
