"""Repository traffic: the repository's own test-suite (unedited) executed in-process with the always-on monitors of one
property installed.  A monitor that fires here is either a defect the tests do not assert or an over-strict monitor: read the
witness before relaxing anything.  Expensive monitors judge one event in N (probes.rates), deterministically."""
import importlib
import os
import sys
import time
from pathlib import Path

from . import core, probes

# property -> (sampling rates, test selection)
PLAN = {
    "C01": ({"rhs": 2}, None),
    "C02": ({"numflux": 5}, None),
    "C07": ({}, ["tests/test_1_integration.py", "tests/test_1_monitor.py", "tests/test_2_model_conv.py", "tests/test_2_model_burgers.py", "tests/test_2_model_shallowwater.py"]),
    "C09": ({}, None),
    "C10": ({}, None),
    "C12": ({}, ["tests/test_1_xnum.py", "tests/test_2_model_burgers.py", "tests/test_2_model_conv.py", "tests/test_3_euler_solution.py::test_shocktube"]),
    "C16": ({"namedBC": 3}, None),
    "C18": ({"timestep": 19, "calc_timestep": 19}, None),
    "C20": ({}, None),
}


class _Plugin:
    def __init__(self, ctx, mod):
        self.ctx, self.mod = ctx, mod
        self.passed = self.failed = 0
        self.failed_ids = []

    def pytest_runtest_setup(self, item):
        self.ctx.begin("repo-tests", self.ctx.cases["repo-tests"])
        self.ctx.describe(test=item.nodeid)

    def pytest_runtest_logreport(self, report):
        if report.when == "call":
            if report.passed:
                self.passed += 1
            elif report.failed:
                self.failed += 1
                self.failed_ids.append(report.nodeid)

    def pytest_runtest_teardown(self, item):
        if hasattr(self.mod, "traffic_flush"):
            try:
                self.mod.traffic_flush(self.ctx)
            except Exception as e:  # noqa
                probes._report(e, "traffic_flush")
        self.ctx.nontrivial("repo-test", item.nodeid)
        self.ctx.end()


def run(pid, tier, seed, out):
    import json
    import pytest
    mod = importlib.import_module("fdmon.props." + pid.lower())
    ctx = core.Ctx(pid, tier, seed, 0, 1)
    rates, select = PLAN[pid]
    probes.rates.update(rates)
    (getattr(mod, "install", None) or mod.setup)(ctx)
    ctx.required.clear()            # the generated-workload shards carry the required classes
    plug = _Plugin(ctx, mod)
    os.chdir(str(core.REPO))
    t0 = time.time()
    args = ["-q", "-p", "no:cacheprovider", "-p", "no:cov", "-o", "addopts=", "--timeout=1800", "--rootdir", str(core.REPO)] + (select or ["tests"])
    code = pytest.main(args, plugins=[plug])
    ctx.info["repo_tests_passed_under_monitors"] = plug.passed
    ctx.info["repo_tests_failed_under_monitors"] = plug.failed
    ctx.info["repo_traffic_wall_s"] = round(time.time() - t0, 1)
    ctx.info["repo_traffic_sampling"] = dict(rates)
    if plug.failed or code not in (0,):
        ctx.begin("repo-tests", -1)
        ctx.harness_error("repository tests do not pass with probes installed (probe transparency): exit %s, failed %s" % (code, plug.failed_ids[:5]))
    if hasattr(mod, "teardown"):
        mod.teardown(ctx)
    Path(out).write_text(json.dumps(ctx.partial()))
    return 0
